//verif:pkg core/stores/redis
package redis

// C19 — Redis lock: one holder at a time, only the holder can release (DESIGN §4 C19).
// Real code executed: RedisLock.AcquireCtx / ReleaseCtx / SetExpire (Go, from SSA) and
// lockscript.lua / delscript.lua (read from the running tree, executed by the engine's Lua
// evaluator against the Redis model). Scripts are atomic, so concurrent Acquire/Release calls are
// sequences of the single steps checked here.

import (
	"context"

	rt "github.com/zeromicro/go-zero/internal/verifrt"
)

const c19Key = "verif:lock"

type c19World struct {
	locks   []*RedisLock
	present bool
	holder  string // value stored under the key (an arbitrary id, possibly one of ours)
	ttl     int64  // remaining ms at time t0
}

func c19Instances(n int) []*RedisLock {
	store := &Redis{}
	var ls []*RedisLock
	for i := 0; i < n; i++ {
		l := &RedisLock{store: store, key: c19Key, id: rt.Atom("id")}
		for _, o := range ls {
			rt.Assume(o.id != l.id) // 16 random characters: distinct instances have distinct ids (assumption)
		}
		l.SetExpire(int(rt.Int("seconds", 0, 1<<32-1)))
		ls = append(ls, l)
	}
	return ls
}

func c19NowMs() int64 { return rt.Now() / 1000000 }

//verif:entry tier=quick,thorough cover=acq_free,acq_expired,acq_reentrant,acq_refused,rel_owner,rel_other,rel_expired,rel_absent
//verif:doc One step from an arbitrary state: key absent, or held by an arbitrary id h with remaining lease 1..2^40 ms; 3 lock instances with pairwise distinct ids (assumption) and symbolic lease seconds (uint32); clock advanced by a symbolic amount (so the lease may or may not have expired); one Acquire or Release by a symbolic instance.
func Verif_C19_Step() {
	ls := c19Instances(3)
	present := rt.Bool("present")
	h := rt.Atom("holder")
	ttl := rt.Int("ttl_ms", 1, 1<<40)
	t0 := c19NowMs()
	if present {
		rt.RedisSetStr(c19Key, h, ttl)
	}
	rt.Advance(rt.Int("elapsed_ns", 0, 1<<62))
	now := c19NowMs()
	held := present && t0+ttl > now
	i := rt.Choose("who", len(ls))
	me := ls[i]
	sec := int64(me.seconds)
	if rt.Choose("op", 2) == 0 {
		ok, err := me.AcquireCtx(context.Background())
		rt.Assert(err == nil, "Acquire reports no error while the store is reachable")
		v, exists := rt.RedisGetStr(c19Key)
		if ok {
			rt.Assert(!held || h == me.id, "Acquire succeeds only if no OTHER instance holds the key unexpired")
			rt.Assert(exists && v == me.id, "after a successful Acquire the key holds the acquirer's id")
			rt.Assert(rt.RedisPTTL(c19Key) == sec*1000+500, "the lease lasts the configured seconds plus 500 ms")
			switch {
			case !present:
				rt.Cover("acq_free")
			case !held:
				rt.Cover("acq_expired")
			default:
				rt.Cover("acq_reentrant")
			}
		} else {
			rt.Cover("acq_refused")
			rt.Assert(held && h != me.id, "Acquire is refused only while another instance holds the key unexpired")
			rt.Assert(exists && v == h && rt.RedisPTTL(c19Key) == t0+ttl-now, "a refused Acquire leaves holder and lease untouched")
		}
	} else {
		ok, err := me.ReleaseCtx(context.Background())
		rt.Assert(err == nil, "Release reports no error while the store is reachable")
		v, exists := rt.RedisGetStr(c19Key)
		if ok {
			rt.Cover("rel_owner")
			rt.Assert(held && h == me.id, "Release reports true only when called by the current unexpired holder")
			rt.Assert(!exists, "a successful Release frees the key")
		} else {
			rt.Assert(!(held && h == me.id), "Release by the current holder succeeds")
			if held {
				rt.Cover("rel_other")
				rt.Assert(exists && v == h && rt.RedisPTTL(c19Key) == t0+ttl-now, "a Release by a non-holder (e.g. a late release after expiry and re-acquisition) never frees or alters the lock")
			} else {
				if present {
					rt.Cover("rel_expired")
				} else {
					rt.Cover("rel_absent")
				}
				rt.Assert(!exists, "nothing appears by releasing a free key")
			}
		}
	}
}

//verif:entry tier=quick,thorough cover=fault,cancelled
//verif:doc Store faults: an unreachable store or a cancelled context yields (false, err) for Acquire and Release and leaves the lock state untouched.
func Verif_C19_Faults() {
	ls := c19Instances(2)
	h := rt.Atom("holder")
	ttl := rt.Int("ttl_ms", 1, 1<<40)
	present := rt.Bool("present")
	if present {
		rt.RedisSetStr(c19Key, h, ttl)
	}
	me := ls[rt.Choose("who", 2)]
	ctx := context.Background()
	if rt.Bool("cancelled") {
		c, cancel := context.WithCancel(ctx)
		cancel()
		ctx = c
		rt.Cover("cancelled")
	} else {
		rt.RedisFail(true)
		rt.Cover("fault")
	}
	var ok bool
	var err error
	if rt.Bool("acquire") {
		ok, err = me.AcquireCtx(ctx)
	} else {
		ok, err = me.ReleaseCtx(ctx)
	}
	rt.RedisFail(false)
	rt.Assert(!ok && err != nil, "a store failure is reported as (false, err), never as success")
	v, exists := rt.RedisGetStr(c19Key)
	rt.Assert(exists == present && (!present || (v == h && rt.RedisPTTL(c19Key) == ttl)), "a failed call leaves the lock state untouched")
}

//verif:entry tier=quick,thorough cover=handover,lateRelease,refresh
//verif:doc Histories: 3 (quick) or 4 (thorough) operations Acquire/Release by 2..3 instances with symbolic clock advances in between, checked against a ghost (holder, expiry): at most one instance believes it holds the key at any time.
func Verif_C19_History() {
	n := 2
	steps := 3
	if rt.Tier() > 0 {
		n, steps = 3, 4
	}
	ls := c19Instances(n)
	holder := -1
	var expiry int64
	for s := 0; s < steps; s++ {
		rt.Advance(rt.Int("gap_ns", 0, 1<<50))
		now := c19NowMs()
		if holder >= 0 && expiry <= now {
			holder = -1
		}
		i := rt.Choose("who", n)
		me := ls[i]
		if rt.Choose("op", 2) == 0 {
			ok, err := me.AcquireCtx(context.Background())
			rt.Assert(err == nil, "no error")
			rt.Assert(ok == (holder < 0 || holder == i), "Acquire succeeds iff the key is free, expired, or already ours")
			if ok {
				if holder == i {
					rt.Cover("refresh")
				} else if s > 0 {
					rt.Cover("handover")
				}
				holder = i
				expiry = now + int64(me.seconds)*1000 + 500
			}
		} else {
			ok, err := me.ReleaseCtx(context.Background())
			rt.Assert(err == nil, "no error")
			rt.Assert(ok == (holder == i), "Release reports true iff the caller is the current holder")
			if ok {
				holder = -1
			} else if holder >= 0 {
				rt.Cover("lateRelease")
			}
		}
		// the store agrees with the ghost: exactly the ghost holder's id is stored, with its lease
		v, exists := rt.RedisGetStr(c19Key)
		rt.Assert(exists == (holder >= 0), "the key exists iff some instance holds the lock")
		if holder >= 0 {
			rt.Assert(exists && v == ls[holder].id && rt.RedisPTTL(c19Key) == expiry-now, "the stored id and lease are the current holder's")
		}
	}
}
