//verif:pkg core/breaker
package breaker

// C01 — exact accounting on every entry point (DESIGN §4 C01 item 4) and the window summary (item 3).
// The real NewBreaker() object is used (loggedThrottle + googleBreaker + RollingWindow); only the
// window contents are preloaded so that both admission outcomes are reachable.

import (
	"context"
	"errors"
	"time"

	rt "github.com/zeromicro/go-zero/internal/verifrt"
)

type c01Counts struct{ sum, success, failure, drop int64 }

func c01Window(b *googleBreaker) c01Counts {
	var c c01Counts
	for _, bk := range b.stat.VerifBuckets() {
		c.sum += bk.Sum
		c.success += bk.Success
		c.failure += bk.Failure
		c.drop += bk.Drop
	}
	return c
}

var (
	c01ErrBad  = errors.New("c01: unacceptable error")
	c01ErrOK   = errors.New("c01: acceptable error")
	c01ErrFall = errors.New("c01: fallback result")
)

func c01Acceptable(err error) bool { return err == nil || err == c01ErrOK }

//verif:entry native tier=quick,thorough float=mono steps=2000000 cover=rejected,admitted,panicked,ctxdone,fallback,packagelevel,nestedunavailable
//verif:doc accounting: real NewBreaker(); window preloaded with F in {0, 30} failures in the current bucket (so both admission outcomes occur, the random draw being arbitrary); entry point one of the 10 Do*/Allow* methods of the breaker object, or the package-level helper of the same name (breakers.go registry); request outcome one of nil / acceptable error / unacceptable error / panic / ErrServiceUnavailable returned by the request itself (a nested breaker: still an admitted call, the fallback must not run); fallback present or absent (where the entry point has one); context done or not (Ctx variants); Allow followed by Accept or Reject.
func Verif_C01_Accounting() {
	// the same entry points are reachable through the package-level helpers of breakers.go, which look
	// the breaker up by name in the registry
	viaPkg := rt.Bool("viaPackageLevelHelper")
	const regName = "verif-registry"
	brk := NewBreaker(WithName("verif")).(*circuitBreaker)
	if viaPkg {
		rt.Cover("packagelevel")
		brk = GetBreaker(regName).(*circuitBreaker)
		rt.Assert(GetBreaker(regName) == Breaker(brk), "the registry hands out one breaker per name")
	}
	gb := brk.throttle.(loggedThrottle).internalThrottle.(*googleBreaker)
	rt.SetNow(rt.Now() + 1) // any instant after construction
	if rt.Bool("preloadFailures") {
		for i := 0; i < 30; i++ {
			gb.markFailure()
		}
	}
	before := c01Window(gb)
	entry := rt.Choose("entry", 10)
	outcome := rt.Choose("outcome", 5) // 0 nil, 1 acceptable error, 2 unacceptable error, 3 panic, 4 the request itself fails with ErrServiceUnavailable (a nested breaker)
	withCtx := entry%2 == 1
	ctxDone := withCtx && rt.Bool("ctxDone")
	ctx, cancel := context.WithCancel(context.Background())
	if ctxDone {
		cancel()
		rt.Cover("ctxdone")
	}
	reqRuns, fbRuns := 0, 0
	var reqErr error
	switch outcome {
	case 1:
		reqErr = c01ErrOK
	case 2:
		reqErr = c01ErrBad
	case 4:
		reqErr = ErrServiceUnavailable
		rt.Cover("nestedunavailable")
	}
	req := func() error {
		reqRuns++
		if outcome == 3 {
			panic("c01: request panicked")
		}
		return reqErr
	}
	var fbArg error
	fallback := func(err error) error { fbRuns++; fbArg = err; return c01ErrFall }
	customAccept := entry == 2 || entry == 3 || entry == 6 || entry == 7
	hasFallback := entry >= 4 && entry <= 7
	var err error
	var promise Promise
	var panicked any
	func() {
		defer func() { panicked = recover() }()
		switch entry {
		case 0:
			if viaPkg {
				err = Do(regName, req)
			} else {
				err = brk.Do(req)
			}
		case 1:
			if viaPkg {
				err = DoCtx(ctx, regName, req)
			} else {
				err = brk.DoCtx(ctx, req)
			}
		case 2:
			if viaPkg {
				err = DoWithAcceptable(regName, req, c01Acceptable)
			} else {
				err = brk.DoWithAcceptable(req, c01Acceptable)
			}
		case 3:
			if viaPkg {
				err = DoWithAcceptableCtx(ctx, regName, req, c01Acceptable)
			} else {
				err = brk.DoWithAcceptableCtx(ctx, req, c01Acceptable)
			}
		case 4:
			if viaPkg {
				err = DoWithFallback(regName, req, fallback)
			} else {
				err = brk.DoWithFallback(req, fallback)
			}
		case 5:
			if viaPkg {
				err = DoWithFallbackCtx(ctx, regName, req, fallback)
			} else {
				err = brk.DoWithFallbackCtx(ctx, req, fallback)
			}
		case 6:
			if viaPkg {
				err = DoWithFallbackAcceptable(regName, req, fallback, c01Acceptable)
			} else {
				err = brk.DoWithFallbackAcceptable(req, fallback, c01Acceptable)
			}
		case 7:
			if viaPkg {
				err = DoWithFallbackAcceptableCtx(ctx, regName, req, fallback, c01Acceptable)
			} else {
				err = brk.DoWithFallbackAcceptableCtx(ctx, req, fallback, c01Acceptable)
			}
		case 8:
			promise, err = brk.Allow()
		case 9:
			promise, err = brk.AllowCtx(ctx)
		}
	}()
	after := c01Window(gb)
	dSum, dSucc, dFail, dDrop := after.sum-before.sum, after.success-before.success, after.failure-before.failure, after.drop-before.drop

	if ctxDone {
		rt.Assert(err == context.Canceled && panicked == nil, "a done context yields ctx.Err()")
		rt.Assert(reqRuns == 0 && fbRuns == 0 && dSum == 0, "a done context runs nothing and records nothing")
		return
	}
	if entry >= 8 {
		// Allow / AllowCtx
		if err != nil {
			rt.Cover("rejected")
			rt.Assert(err == ErrServiceUnavailable, "Allow rejects with ErrServiceUnavailable only")
			rt.Assert(dSum == 1 && dDrop == 1 && dSucc == 0 && dFail == 0, "a rejected Allow records exactly one drop")
			return
		}
		rt.Assert(promise != nil && dSum == 0, "an admitted Allow records nothing until the promise is resolved")
		if rt.Bool("accept") {
			promise.Accept()
		} else {
			promise.Reject("c01 reason")
		}
		a2 := c01Window(gb)
		rt.Assert(a2.sum-before.sum == 1, "resolving the promise records exactly one call")
		rt.Assert((a2.success-before.success == 1) != (a2.failure-before.failure == 1), "Accept records a success, Reject a failure")
		return
	}
	rejected := reqRuns == 0
	if rejected {
		rt.Cover("rejected")
		rt.Assert(panicked == nil, "a rejected call does not panic")
		rt.Assert(dSum == 1 && dDrop == 1 && dSucc == 0 && dFail == 0, "a rejected call is recorded as exactly one drop")
		if hasFallback {
			rt.Cover("fallback")
			rt.Assert(fbRuns == 1 && fbArg == ErrServiceUnavailable && err == c01ErrFall, "a rejected call runs the fallback exactly once and returns its result")
		} else {
			rt.Assert(fbRuns == 0 && err == ErrServiceUnavailable, "a rejected call without fallback returns ErrServiceUnavailable")
		}
		return
	}
	rt.Cover("admitted")
	rt.Assert(reqRuns == 1 && fbRuns == 0, "an admitted call runs the request exactly once and never the fallback")
	rt.Assert(dSum == 1 && dDrop == 0, "an admitted call is recorded exactly once")
	if outcome == 3 {
		rt.Cover("panicked")
		rt.Assert(panicked == "c01: request panicked", "a request panic is re-raised unchanged")
		rt.Assert(dFail == 1 && dSucc == 0, "a panicking request counts as a failure")
		return
	}
	rt.Assert(panicked == nil && err == reqErr, "an admitted call returns the request's error unchanged")
	wantSucc := reqErr == nil || (customAccept && reqErr == c01ErrOK)
	rt.Assert((dSucc == 1) == wantSucc && (dFail == 1) == !wantSucc, "recorded as success iff the acceptability predicate accepts the error")
}

//verif:entry native tier=quick,thorough steps=2000000 cover=mixed
//verif:doc window summary: real history() over the real 40-bucket window; 3 buckets at symbolic-chosen distinct positions carry symbolic (Success, Failure, Drop) counts in 0..2^20 with Sum = their total (invariant), the rest are zero; accepts/total compared with the harness's own sums, failing/working bucket counters within 0..40.
func Verif_C01_WindowSummary() {
	gb := newGoogleBreaker()
	bks := gb.stat.VerifBuckets()
	var wantAcc, wantTotal int64
	p0 := rt.Choose("pos0", 38)
	pos := []int{p0, p0 + 1, 39}
	for _, p := range pos {
		s, f, d := rt.Int("succ", 0, 1<<20), rt.Int("fail", 0, 1<<20), rt.Int("drop", 0, 1<<20)
		bks[p].Success, bks[p].Failure, bks[p].Drop, bks[p].Sum = s, f, d, s+f+d
		wantAcc += s
		wantTotal += s + f + d
	}
	h := gb.history()
	rt.Cover("mixed")
	rt.Assert(h.accepts == wantAcc, "the window summary's accepts is the sum of the recorded successes")
	rt.Assert(h.total == wantTotal, "the window summary's total is the sum of all recorded calls")
	rt.Assert(h.failingBuckets >= 0 && h.failingBuckets <= buckets && h.workingBuckets >= 0 && h.workingBuckets <= buckets, "bucket streak counters stay within 0..40")
}

//verif:entry native tier=quick,thorough steps=3000000 cover=fresh,overlap,idle
//verif:doc the 10 s window over time gaps from 0 to several windows: 2 failures are recorded, the clock advances by a gap from {0, 5, 9.75, 10, 10.25, 25, 45} s, 3 more failures are recorded, the clock advances by a second gap from {0, 0.25, 5, 9.75, 10, 12} s, then the window summary is read: it counts exactly the calls recorded during the preceding 10 s (bucket granularity 250 ms, the oracle recomputes bucket indices from the clock), in particular all b recent ones however long the breaker was idle before.
func Verif_C01_IdleGap() {
	gb := newGoogleBreaker()
	t0 := rt.Now()
	a, b := int64(2), int64(3)
	for i := int64(0); i < a; i++ {
		gb.markFailure()
	}
	const bucket = int64(250 * time.Millisecond)
	// gaps in whole buckets (sub-bucket offsets and arbitrary instants are C16's subject)
	gap1 := []int64{0, 20, 39, 40, 41, 100, 180}[rt.Choose("gap1", 7)] * bucket
	rt.Advance(gap1)
	t1 := rt.Now()
	for i := int64(0); i < b; i++ {
		gb.markFailure()
	}
	gap2 := []int64{0, 1, 20, 39, 40, 48}[rt.Choose("gap2", 6)] * bucket
	rt.Advance(gap2)
	h := gb.history()
	// bucket index of an instant relative to construction, window = the last 40 buckets incl. the current
	nowIdx := (rt.Now() - t0) / bucket
	idxA, idxB := int64(0), (t1-t0)/bucket
	var want int64
	if nowIdx-idxA < buckets {
		want += a
	}
	if nowIdx-idxB < buckets {
		want += b
		rt.Cover("fresh")
	}
	if nowIdx-idxA < buckets && gap1 > 0 {
		rt.Cover("overlap")
	}
	if gap1 >= 2*buckets*bucket {
		rt.Cover("idle")
	}
	rt.Assert(h.total == want, "the window summary counts exactly the calls recorded during the preceding 10 s, however long the breaker was idle before")
	rt.Assert(h.accepts == 0, "failures are never counted as accepted")
}
