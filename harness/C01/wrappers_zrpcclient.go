//verif:pkg zrpc/internal/clientinterceptors
package clientinterceptors

// C01 — the zRPC client breaker interceptor: which breaker it uses, that the invoker is the guarded
// request, and which gRPC status codes count as failures (zrpc/internal/codes.Acceptable).

import (
	"context"
	"errors"
	"path"

	"github.com/zeromicro/go-zero/core/breaker"
	rt "github.com/zeromicro/go-zero/internal/verifrt"
	"google.golang.org/grpc"
	gcodes "google.golang.org/grpc/codes"
	"google.golang.org/grpc/status"
)

var c01Seen struct {
	name       string
	acceptable breaker.Acceptable
	calls      int
	reject     bool
}

func c01DoWithAcceptableCtx(ctx context.Context, name string, req func() error, acceptable breaker.Acceptable) error {
	c01Seen.calls++
	c01Seen.name, c01Seen.acceptable = name, acceptable
	if c01Seen.reject {
		return breaker.ErrServiceUnavailable
	}
	return req()
}

var c01ErrPlain = errors.New("c01: plain error")

//verif:entry tier=quick,thorough steps=3000000 cover=admitted,rejected,codes
//verif:stub github.com/zeromicro/go-zero/core/breaker.DoWithAcceptableCtx c01DoWithAcceptableCtx
//verif:doc zRPC client BreakerInterceptor with breaker.DoWithAcceptableCtx replaced by a recorder: the breaker is named target/method, the invoker runs exactly once iff admitted and its error is returned unchanged, a rejection is returned as is; the acceptability predicate handed to the breaker treats exactly DeadlineExceeded, Internal, Unavailable, DataLoss, Unimplemented and ResourceExhausted as failures, every other gRPC code, nil and non-status errors as acceptable.
func Verif_C01_ZrpcClientWrapper() {
	c01Seen.calls, c01Seen.reject = 0, rt.Bool("breakerRejects")
	invoked := 0
	outcome := rt.Choose("invoker", 3)
	var want error
	switch outcome {
	case 1:
		want = c01ErrPlain
	case 2:
		want = status.Error(gcodes.Unavailable, "down")
	}
	cc := &grpc.ClientConn{}
	err := BreakerInterceptor(context.Background(), "/svc/Call", nil, nil, cc,
		func(ctx context.Context, method string, req, reply any, cc *grpc.ClientConn, opts ...grpc.CallOption) error {
			invoked++
			return want
		})
	rt.Assert(c01Seen.calls == 1 && c01Seen.name == path.Join(cc.Target(), "/svc/Call"), "one breaker per target and method guards the call")
	if c01Seen.reject {
		rt.Cover("rejected")
		rt.Assert(invoked == 0 && err == breaker.ErrServiceUnavailable, "a rejected call is not sent and reports ErrServiceUnavailable")
		return
	}
	rt.Cover("admitted")
	rt.Assert(invoked == 1 && err == want, "an admitted call is sent exactly once and its error is returned unchanged")
	bad := map[gcodes.Code]bool{gcodes.DeadlineExceeded: true, gcodes.Internal: true, gcodes.Unavailable: true, gcodes.DataLoss: true, gcodes.Unimplemented: true, gcodes.ResourceExhausted: true}
	for c := gcodes.Code(0); c <= gcodes.Unauthenticated; c++ {
		var e error
		if c != gcodes.OK {
			e = status.Error(c, "x")
		}
		rt.Assert(c01Seen.acceptable(e) == !bad[c], "exactly the server-fault gRPC codes count as breaker failures")
	}
	rt.Assert(c01Seen.acceptable(c01ErrPlain), "a non-status error is acceptable (code Unknown)")
	rt.Cover("codes")
}
