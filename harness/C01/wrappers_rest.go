//verif:pkg rest/handler
package handler

// C01 — the REST breaker middleware (rest/handler/breakerhandler.go) over a recording breaker:
// what is admitted, what is recorded as success/failure, what a rejected request gets.

import (
	"context"
	"errors"
	"net/http"

	"github.com/zeromicro/go-zero/core/breaker"
	rt "github.com/zeromicro/go-zero/internal/verifrt"
)

type c01Promise struct{ accepts, rejects int }

func (p *c01Promise) Accept()              { p.accepts++ }
func (p *c01Promise) Reject(reason string) { p.rejects++ }

type c01FakeBreaker struct {
	reject  bool
	allows  int
	promise *c01Promise
}

var c01Fake *c01FakeBreaker

func (b *c01FakeBreaker) Name() string { return "c01" }
func (b *c01FakeBreaker) Allow() (breaker.Promise, error) {
	b.allows++
	if b.reject {
		return nil, breaker.ErrServiceUnavailable
	}
	b.promise = &c01Promise{}
	return b.promise, nil
}
func (b *c01FakeBreaker) AllowCtx(ctx context.Context) (breaker.Promise, error) { return b.Allow() }
func (b *c01FakeBreaker) Do(req func() error) error                            { panic("c01: unused") }
func (b *c01FakeBreaker) DoCtx(ctx context.Context, req func() error) error    { panic("c01: unused") }
func (b *c01FakeBreaker) DoWithAcceptable(req func() error, a breaker.Acceptable) error {
	panic("c01: unused")
}
func (b *c01FakeBreaker) DoWithAcceptableCtx(ctx context.Context, req func() error, a breaker.Acceptable) error {
	panic("c01: unused")
}
func (b *c01FakeBreaker) DoWithFallback(req func() error, f breaker.Fallback) error {
	panic("c01: unused")
}
func (b *c01FakeBreaker) DoWithFallbackCtx(ctx context.Context, req func() error, f breaker.Fallback) error {
	panic("c01: unused")
}
func (b *c01FakeBreaker) DoWithFallbackAcceptable(req func() error, f breaker.Fallback, a breaker.Acceptable) error {
	panic("c01: unused")
}
func (b *c01FakeBreaker) DoWithFallbackAcceptableCtx(ctx context.Context, req func() error, f breaker.Fallback, a breaker.Acceptable) error {
	panic("c01: unused")
}

func c01NewBreaker(opts ...breaker.Option) breaker.Breaker { return c01Fake }

type c01RW struct {
	h    http.Header
	code int
}

func (w *c01RW) Header() http.Header { return w.h }
func (w *c01RW) WriteHeader(c int) {
	if w.code == 0 {
		w.code = c
	}
}
func (w *c01RW) Write(p []byte) (int, error) {
	if w.code == 0 {
		w.code = 200
	}
	return len(p), nil
}

var c01ErrUnused = errors.New("c01")

//verif:entry tier=quick,thorough steps=1000000 cover=rejected,success,failure,implicit200,panicked
//verif:stub github.com/zeromicro/go-zero/core/breaker.NewBreaker c01NewBreaker
//verif:doc BreakerHandler over a recording breaker: the breaker admits or rejects; the inner handler writes a status code (any value in 100..599), only a body, nothing, or panics. Rejected: 503, the inner handler does not run, nothing is recorded. Admitted: the inner handler runs exactly once and the promise is resolved exactly once - accepted iff the response status is below 500 (implicit 200 included) - also when the handler panics, and the panic is re-raised.
func Verif_C01_RestWrapper() {
	c01Fake = &c01FakeBreaker{reject: rt.Bool("breakerRejects")}
	ran := 0
	behaviour := rt.Choose("handler", 4) // 0 WriteHeader(code), 1 body only, 2 nothing, 3 panic after WriteHeader(code)
	code := int(rt.Int("code", 100, 599))
	h := BreakerHandler("GET", "/x", nil)(http.HandlerFunc(func(w http.ResponseWriter, r *http.Request) {
		ran++
		switch behaviour {
		case 0:
			w.WriteHeader(code)
		case 1:
			w.Write([]byte("ok"))
		case 3:
			w.WriteHeader(code)
			panic("c01: handler panicked")
		}
	}))
	rec := &c01RW{h: http.Header{}}
	var panicked any
	func() {
		defer func() { panicked = recover() }()
		h.ServeHTTP(rec, &http.Request{Method: "GET", Header: http.Header{}, RequestURI: "/x"})
	}()
	rt.Assert(c01Fake.allows == 1, "the breaker is consulted exactly once per request")
	if c01Fake.reject {
		rt.Cover("rejected")
		rt.Assert(ran == 0 && rec.code == http.StatusServiceUnavailable && panicked == nil, "a rejected request gets 503 and never reaches the handler")
		return
	}
	p := c01Fake.promise
	rt.Assert(ran == 1, "an admitted request runs the handler exactly once")
	rt.Assert(p.accepts+p.rejects == 1, "an admitted request is recorded exactly once")
	status := 200
	if behaviour == 0 || behaviour == 3 {
		status = code
	}
	if behaviour == 1 || behaviour == 2 {
		rt.Cover("implicit200")
	}
	if behaviour == 3 {
		rt.Cover("panicked")
		rt.Assert(panicked == "c01: handler panicked", "a handler panic is re-raised unchanged")
	} else {
		rt.Assert(panicked == nil, "no panic without a panicking handler")
	}
	if status < 500 {
		rt.Cover("success")
		rt.Assert(p.accepts == 1, "a response below 500 is recorded as a success")
	} else {
		rt.Cover("failure")
		rt.Assert(p.rejects == 1, "a 5xx response is recorded as a failure")
	}
}
