//verif:pkg zrpc/internal/serverinterceptors
package serverinterceptors

// C01 — the zRPC server breaker interceptor: breaker per full method, handler as the guarded
// request, server-side acceptability, rejection surfaced as gRPC Unavailable.

import (
	"context"
	"errors"

	"github.com/zeromicro/go-zero/core/breaker"
	rt "github.com/zeromicro/go-zero/internal/verifrt"
	"google.golang.org/grpc"
	gcodes "google.golang.org/grpc/codes"
	"google.golang.org/grpc/status"
)

var c01Srv struct {
	name       string
	acceptable breaker.Acceptable
	calls      int
	reject     bool
}

func c01SrvDoWithAcceptableCtx(ctx context.Context, name string, req func() error, acceptable breaker.Acceptable) error {
	c01Srv.calls++
	c01Srv.name, c01Srv.acceptable = name, acceptable
	if c01Srv.reject {
		return breaker.ErrServiceUnavailable
	}
	return req()
}

var c01ErrHandler = errors.New("c01: handler error")

//verif:entry tier=quick,thorough steps=3000000 cover=admitted,rejected,codes
//verif:stub github.com/zeromicro/go-zero/core/breaker.DoWithAcceptableCtx c01SrvDoWithAcceptableCtx
//verif:doc zRPC server UnaryBreakerInterceptor with breaker.DoWithAcceptableCtx replaced by a recorder: the breaker is named after the full method, the handler runs exactly once iff admitted and its response and error are returned unchanged, a rejection reaches the client as gRPC Unavailable without running the handler; server-side acceptability treats context.DeadlineExceeded, ErrServiceUnavailable and the server-fault gRPC codes as failures and everything else as acceptable.
func Verif_C01_ZrpcServerWrapper() {
	c01Srv.calls, c01Srv.reject = 0, rt.Bool("breakerRejects")
	ran := 0
	outcome := rt.Choose("handler", 3)
	var wantErr error
	var wantResp any = "resp"
	switch outcome {
	case 1:
		wantErr, wantResp = c01ErrHandler, nil
	case 2:
		wantErr, wantResp = status.Error(gcodes.Internal, "boom"), nil
	}
	resp, err := UnaryBreakerInterceptor(context.Background(), "req", &grpc.UnaryServerInfo{FullMethod: "/svc/Call"},
		func(ctx context.Context, req any) (any, error) {
			ran++
			return wantResp, wantErr
		})
	rt.Assert(c01Srv.calls == 1 && c01Srv.name == "/svc/Call", "one breaker per full method guards the handler")
	if c01Srv.reject {
		rt.Cover("rejected")
		rt.Assert(ran == 0 && resp == nil && status.Code(err) == gcodes.Unavailable, "a rejected request never runs the handler and is answered with gRPC Unavailable")
		return
	}
	rt.Cover("admitted")
	rt.Assert(ran == 1 && resp == wantResp && err == wantErr, "an admitted request runs the handler exactly once and returns its response and error unchanged")
	a := c01Srv.acceptable
	rt.Assert(a(nil) && a(c01ErrHandler), "nil and ordinary handler errors are acceptable")
	rt.Assert(!a(context.DeadlineExceeded) && !a(breaker.ErrServiceUnavailable), "a deadline and a nested breaker rejection count as failures")
	bad := map[gcodes.Code]bool{gcodes.DeadlineExceeded: true, gcodes.Internal: true, gcodes.Unavailable: true, gcodes.DataLoss: true, gcodes.Unimplemented: true, gcodes.ResourceExhausted: true}
	for c := gcodes.Canceled; c <= gcodes.Unauthenticated; c++ {
		rt.Assert(a(status.Error(c, "x")) == !bad[c], "exactly the server-fault gRPC codes count as breaker failures")
	}
	rt.Cover("codes")
}
