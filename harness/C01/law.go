//verif:pkg core/breaker
package breaker

// C01 — circuit breaker: admission law, guaranteed probing, sustained failure (DESIGN §4 C01 items 1-2).
// accept() is executed on an ARBITRARY window summary: history() is redirected to a harness function
// returning symbolic counts (what history() computes from the buckets is checked in window.go).

import (
	"time"
	"github.com/zeromicro/go-zero/core/mathx"
	"github.com/zeromicro/go-zero/core/syncx"
	"github.com/zeromicro/go-zero/core/timex"
	rt "github.com/zeromicro/go-zero/internal/verifrt"
)

var c01Hist windowResult

func c01History(b *googleBreaker) windowResult { return c01Hist }

const c01MaxTotal = 40 << 20

//verif:entry tier=quick,thorough float=mono steps=400000 recycle=1 cover=rejected,forced,admittedUnderThrottle
//verif:stub (*github.com/zeromicro/go-zero/core/breaker.googleBreaker).history c01History
//verif:doc accept(): accepts/total symbolic with 0 <= accepts <= total <= 40*2^20; failingBuckets enumerated over 0..40; workingBuckets symbolic 0..40; lastPass and now symbolic up to 2^50 ns; random draw arbitrary in [0,1). Floats: E2 (real relaxation with rounding axioms).
func Verif_C01_AdmissionLaw() {
	b := &googleBreaker{k: k, proba: mathx.NewProba(), lastPass: syncx.NewAtomicDuration()}
	fb := int64(rt.Choose("failingBuckets", 41))
	accepts := rt.Int("accepts", 0, c01MaxTotal)
	total := rt.Int("total", 0, c01MaxTotal)
	rt.Assume(accepts <= total)
	working := rt.Int("workingBuckets", 0, buckets)
	c01Hist = windowResult{accepts: accepts, total: total, failingBuckets: fb, workingBuckets: working}
	now := rt.Int("now", 1, 1<<50)
	rt.SetNow(now)
	lastPass := rt.Int("lastPass", 0, 1<<50)
	rt.Assume(lastPass <= now)
	b.lastPass.Set(timeDur(lastPass))

	err := b.accept()

	after := int64(b.lastPass.Load())
	rt.Assert(err == nil || err == ErrServiceUnavailable, "accept returns nil or ErrServiceUnavailable only")
	// the law, in exact integers: rejected only if non-accepted > 5 + 10% of accepted
	lawAllowsReject := 10*(total-protection) > 11*accepts
	probeDue := rt.And(lastPass > 0, now-lastPass > int64(forcePassDuration))
	if err != nil {
		rt.Cover("rejected")
		rt.Assert(lawAllowsReject, "a call is rejected only when the non-accepted calls exceed 5 plus 10% of the accepted ones")
		rt.Assert(!probeDue, "a call arriving more than 1s after the previous throttled admission is always admitted")
		rt.Assert(after == lastPass, "a rejection leaves the last-pass time untouched")
	} else {
		rt.Assert(rt.Or(lawAllowsReject, after == lastPass), "an admission outside throttling leaves the last-pass time untouched")
		rt.Assert(rt.Or(after == lastPass, after == now), "a throttled admission records the current time as last pass")
		rt.CoverIf(after != lastPass, "admittedUnderThrottle")
		// certainly throttling (no accepted call, more than 5 recorded): this admission is the probe
		certainProbe := rt.And(probeDue, rt.And(accepts == 0, total > protection))
		rt.CoverIf(certainProbe, "forced")
		rt.Assert(rt.Or(!certainProbe, after == now), "a forced probe admission becomes the new 'previous throttled admission' (last-pass time refreshed)")
	}
	_ = timex.Now
}

//verif:entry tier=quick,thorough float=mono steps=400000 cover=sustained
//verif:stub (*github.com/zeromicro/go-zero/core/breaker.googleBreaker).history c01History
//verif:stub (*github.com/zeromicro/go-zero/core/mathx.Proba).TrueOnProba c01TrueOnProba
//verif:doc sustained total failure: accepts = 0, workingBuckets = 0, total in [100, 40*2^20], not inside the forced-probe window: the call is rejected whenever the random draw is below 0.9 (rejection probability >= 0.9).
func Verif_C01_SustainedFailure() {
	b := &googleBreaker{k: k, proba: mathx.NewProba(), lastPass: syncx.NewAtomicDuration()}
	fb := int64(rt.Choose("failingBuckets", 41))
	total := rt.Int("total", 100, c01MaxTotal)
	c01Hist = windowResult{accepts: 0, total: total, failingBuckets: fb, workingBuckets: 0}
	now := rt.Int("now", 1, 1<<50)
	rt.SetNow(now)
	lastPass := rt.Int("lastPass", 0, 1<<50)
	rt.Assume(lastPass <= now)
	rt.Assume(lastPass == 0 || now-lastPass <= int64(forcePassDuration))
	b.lastPass.Set(timeDur(lastPass))
	c01Draw = -1
	err := b.accept()
	rt.Cover("sustained")
	rt.Assert(c01Draw >= 0, "under sustained failure admission is decided by the random draw")
	rt.Assert(err != nil || c01Draw >= 0.9, "under sustained total failure a call is rejected with probability at least 0.9")
	rt.Assert(err == nil || c01Draw < 1, "rejection only on a draw below the drop ratio")
}

// c01Draw records the random draw made by Proba.TrueOnProba: harness copy of the real body
// (truth = r.Float64() < proba) that also records the draw and the probability.
var c01Draw, c01P float64

func c01TrueOnProba(p *mathx.Proba, proba float64) bool {
	r := rt.Float("draw", 0, 1)
	rt.Assume(r < 1)
	c01Draw, c01P = r, proba
	return r < proba
}

func timeDur(ns int64) time.Duration { return time.Duration(ns) }
