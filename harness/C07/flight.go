//verif:pkg core/syncx
package syncx

// C07 — SingleFlight / LockedCalls / ResourceManager (DESIGN §4 C07).
// Real code executed: flightGroup.{Do,DoEx,createCall,makeCall}, lockedGroup.{Do,makeCall},
// ResourceManager.GetResource, under every interleaving (at lock / WaitGroup granularity) of 2-3
// goroutines. Events are stamped with a logical clock; the overlap oracle is evaluated at quiescence.

import (
	"errors"
	"io"

	rt "github.com/zeromicro/go-zero/internal/verifrt"
)

var c07ErrFn = errors.New("c07: fn failed")

type c07Exec struct {
	key        string
	start, end int
	val        int
	err        error
	panicked   bool
	caller     int // index of the call that ran it
}

type c07Call struct {
	key            string
	invoke, ret    int
	val            any
	fresh          bool
	err            error
	returned       bool
	panicked       bool
	ownExec        int // index into execs, -1 if fn was not run by this call
}

type c07World struct {
	clk     int
	execs   []*c07Exec
	calls   []*c07Call
	running map[string]int
}

func (w *c07World) tick() int { w.clk++; return w.clk }

// doCall performs one DoEx (or Do) on sf from the calling goroutine and records everything.
func (w *c07World) doCall(sf SingleFlight, key string, useEx bool, outcomes int) {
	c := &c07Call{key: key, ownExec: -1}
	w.calls = append(w.calls, c)
	ci := len(w.calls) - 1
	outcome := rt.Choose("fnOutcome", outcomes) // 0 value, 1 error, 2 panic
	fn := func() (any, error) {
		e := &c07Exec{key: key, caller: ci, val: 100 + len(w.execs)}
		w.execs = append(w.execs, e)
		c.ownExec = len(w.execs) - 1
		rt.Assert(w.running[key] == 0, "for any key at most one execution of the supplied function is in progress")
		w.running[key]++
		e.start = w.tick()
		rt.Yield()
		e.end = w.tick()
		w.running[key]--
		switch outcome {
		case 1:
			e.err = c07ErrFn
			return nil, e.err
		case 2:
			e.panicked = true
			panic("c07: fn panicked")
		}
		return e.val, nil
	}
	c.invoke = w.tick()
	func() {
		defer func() {
			if p := recover(); p != nil {
				c.panicked = true
			}
		}()
		if useEx {
			c.val, c.fresh, c.err = sf.DoEx(key, fn)
		} else {
			c.val, c.err = sf.Do(key, fn)
			c.fresh = c.ownExec >= 0
		}
		c.returned = true
	}()
	c.ret = w.tick()
}

// check evaluates the oracle once every goroutine has finished.
func (w *c07World) check() {
	for i, c := range w.calls {
		rt.Assert(c.returned || c.panicked, "every call returns (no deadlock)")
		if c.ownExec >= 0 {
			e := w.execs[c.ownExec]
			if e.panicked {
				rt.Assert(c.panicked, "a panic of the caller's own function reaches the caller")
				continue
			}
			rt.Cover("leader")
			rt.Assert(c.returned && c.fresh, "the caller that ran the function is reported fresh")
			rt.Assert(c.err == e.err && (e.err != nil || c.val == any(e.val)), "the leading caller receives the value and error of its own execution")
			continue
		}
		// a waiter: its result must be that of an execution on the same key whose leading call overlaps this call
		rt.Cover("shared")
		rt.Assert(c.returned && !c.fresh, "a caller that did not run the function is not reported fresh")
		ok := false
		for _, e := range w.execs {
			l := w.calls[e.caller]
			if e.key != c.key || e.caller == i {
				continue
			}
			if l.ret > c.invoke && l.invoke < c.ret {
				if e.panicked {
					if c.val == nil && c.err == nil {
						ok = true // waiters of a panicked flight observe zero values (outside the statement)
					}
				} else if c.err == e.err && (e.err != nil || c.val == any(e.val)) {
					ok = true
				}
			}
		}
		rt.Assert(ok, "a waiting caller receives the result of an execution whose leading call overlaps its own call in time, never one retained from a call that had already returned")
	}
	for k, n := range w.running {
		_ = k
		rt.Assert(n == 0, "no execution is left in progress")
	}
}

//verif:entry dpor tier=quick,thorough cover=leader,shared,sequential
//verif:doc SingleFlight.DoEx/Do: goroutine 0 makes two consecutive calls on k1 (the first returns a value, an error or panics: symbolic), goroutine 1 (and in thorough goroutine 2) makes one call on k1 or k2 (value or error); fn yields in the middle; every interleaving at lock/WaitGroup granularity; overlap oracle on logical-clock stamps.
func Verif_C07_SingleFlight() {
	w := &c07World{running: map[string]int{}}
	sf := NewSingleFlight()
	gs := 2
	if rt.Tier() > 0 {
		gs = 3
	}
	keys := []string{"k1", "k2"}
	useEx := rt.Choose("api", 2) == 0
	done := 0
	for g := 0; g < gs; g++ {
		g := g
		go func() {
			if g == 0 {
				w.doCall(sf, "k1", useEx, 3)
				rt.Cover("sequential")
				w.doCall(sf, "k1", useEx, 1)
			} else {
				w.doCall(sf, keys[rt.Choose("key", 2)], useEx, 2)
			}
			done++
		}()
	}
	rt.WaitIdle()
	rt.Assert(done == gs, "all callers finish (no deadlock)")
	w.check()
	rt.Assert(len(sf.(*flightGroup).calls) == 0, "no call record is retained after its flight has finished")
}

//verif:entry dpor tier=quick,thorough cover=waited,otherkey,samekeyblocked,panicked
//verif:doc LockedCalls.Do: 2 (quick) / 3 (thorough) goroutines on keys from two; every caller's own fn runs exactly once, same-key executions never overlap, results are the caller's own; optionally one execution blocks forever: callers on the other key still complete; optionally one function panics (its caller recovers): every other caller, also on the same key, still completes.
func Verif_C07_LockedCalls() {
	lc := NewLockedCalls()
	gs := 2
	if rt.Tier() > 0 {
		gs = 3
	}
	keys := []string{"k1", "k2"}
	running := map[string]int{}
	ran := make([]int, gs)
	finished := make([]bool, gs)
	gkey := make([]string, gs)
	completedExecs := 0
	block := make(chan struct{})
	blocker := rt.Choose("blocker", gs+1) - 1 // -1: nobody blocks
	panicker := -1                            // this caller's function panics (the caller recovers)
	if blocker < 0 {
		panicker = rt.Choose("panicker", gs+1) - 1
	}
	for g := 0; g < gs; g++ {
		g := g
		key := keys[rt.Choose("key", 2)]
		gkey[g] = key
		go func() {
			defer func() {
				if p := recover(); p != nil {
					rt.Cover("panicked")
					rt.Assert(g == panicker, "only the panicking function's own caller sees the panic")
					finished[g] = true
				}
			}()
			v, err := lc.Do(key, func() (any, error) {
				rt.Assert(running[key] == 0, "no two executions for the same key overlap")
				if completedExecs > 0 {
					rt.Cover("waited")
				}
				running[key]++
				ran[g]++
				rt.Yield()
				if g == blocker {
					<-block // never released
				}
				running[key]--
				completedExecs++
				if g == panicker {
					panic("c07: locked function panicked")
				}
				return g, nil
			})
			rt.Assert(err == nil && v == any(g), "LockedCalls returns the caller's own result")
			finished[g] = true
		}()
	}
	rt.WaitIdle()
	for g := 0; g < gs; g++ {
		rt.Assert(ran[g] <= 1, "a caller's function never runs twice")
		if finished[g] {
			rt.Assert(ran[g] == 1, "every caller's own function runs exactly once")
		}
		switch {
		case blocker < 0:
			rt.Assert(finished[g], "all callers finish")
		case g != blocker && gkey[g] != gkey[blocker]:
			rt.Cover("otherkey")
			rt.Assert(finished[g], "calls on different keys never wait for each other")
		case g != blocker && !finished[g]:
			rt.Cover("samekeyblocked")
			rt.Assert(ran[g] == 0, "a caller queued behind a running same-key execution has not started")
		}
	}
}

type c07Res struct{ id int }

func (r *c07Res) Close() error { return nil }

var c07ErrCreate = errors.New("c07: create failed")

//verif:entry dpor tier=quick,thorough cover=created,reused,failed,retry
//verif:doc ResourceManager.GetResource: 2 (quick) / 3 (thorough) goroutines, keys from two, create may fail (symbolic) and yields; every interleaving: per key create succeeds at most once, all successful callers get the same instance, a failed create is reported and not stored (a later call creates again).
func Verif_C07_ResourceManager() {
	m := NewResourceManager()
	gs := 2
	if rt.Tier() > 0 {
		gs = 3
	}
	keys := []string{"k1", "k2"}
	created := map[string]int{}
	first := map[string]io.Closer{}
	ids := 0
	done := 0
	for g := 0; g < gs; g++ {
		key := keys[rt.Choose("key", 2)]
		calls := 1
		if g == 0 {
			calls = 2
		}
		go func() {
			for i := 0; i < calls; i++ {
				fail := rt.Bool("createFails")
				res, err := m.GetResource(key, func() (io.Closer, error) {
					rt.Yield()
					if fail {
						rt.Cover("failed")
						return nil, c07ErrCreate
					}
					created[key]++
					rt.Assert(created[key] == 1, "each keyed resource is created successfully at most once")
					ids++
					rt.Cover("created")
					return &c07Res{id: ids}, nil
				})
				if err != nil {
					rt.Assert(err == c07ErrCreate && res == nil, "a failed create is reported to the callers of that flight")
					if i == 0 && calls == 2 {
						rt.Cover("retry")
					}
					continue
				}
				rt.Assert(res != nil, "a successful call returns a resource")
				if f, ok := first[key]; ok {
					rt.Cover("reused")
					rt.Assert(f == res, "everyone is handed the same instance for a key")
				} else {
					first[key] = res
				}
			}
			done++
		}()
	}
	rt.WaitIdle()
	rt.Assert(done == gs, "all callers finish")
	for k, n := range created {
		stored, ok := m.resources[k]
		rt.Assert(n <= 1 && (n == 0) == !ok, "a resource is stored iff its create succeeded")
		if ok {
			rt.Assert(stored == first[k] || first[k] == nil, "the stored instance is the one handed out")
		}
	}
}

//verif:entry dpor tier=quick cover=leader,shared,sequential
//verif:doc SingleFlight.DoEx across generations (quick companion of the 3-goroutine thorough run): goroutine 0 makes two consecutive calls on one key, goroutines 1 and 2 one call each on the same key, every function returns a value; ALL interleavings (DPOR): at most one execution in progress at any time, shared results only from overlapping leaders, no call record left.
func Verif_C07_Generations() {
	w := &c07World{running: map[string]int{}}
	sf := NewSingleFlight()
	done := 0
	for g := 0; g < 3; g++ {
		g := g
		go func() {
			w.doCall(sf, "k1", true, 1)
			if g == 0 {
				rt.Cover("sequential")
				w.doCall(sf, "k1", true, 1)
			}
			done++
		}()
	}
	rt.WaitIdle()
	rt.Assert(done == 3, "all callers finish (no deadlock)")
	w.check()
	rt.Assert(len(sf.(*flightGroup).calls) == 0, "no call record is retained after its flight has finished")
}
