//verif:pkg core/stores/sqlx
package sqlx

// C14 — SQL transactions end exactly once: commit iff the body succeeded (DESIGN §4 C14).
// Real code executed: transactOnConn, transact, commonSqlConn.TransactCtx/Transact/acceptable.
// The harness supplies the beginnable, a recording trans and (for TransactCtx) a pass-through breaker.

import (
	"context"
	"database/sql"
	"errors"
	"fmt"

	"github.com/zeromicro/go-zero/core/breaker"
	rt "github.com/zeromicro/go-zero/internal/verifrt"
	oteltrace "go.opentelemetry.io/otel/trace"
)

// tracing glue is outside the property: spans are not created (stubs listed in the evidence)
//verif:stub github.com/zeromicro/go-zero/core/stores/sqlx.startSpan c14StartSpan
//verif:stub github.com/zeromicro/go-zero/core/stores/sqlx.endSpan c14EndSpan

func c14StartSpan(ctx context.Context, method string) (context.Context, oteltrace.Span) {
	return ctx, nil
}

func c14EndSpan(span oteltrace.Span, err error) {}

var (
	c14ErrBegin    = errors.New("c14: begin failed")
	c14ErrBody     = errors.New("c14: body error")
	c14ErrCommit   = errors.New("c14: commit failed")
	c14ErrRollback = errors.New("c14: rollback failed")
)

// c14Errors: the error a failing statement / body returns is drawn from this list, which contains
// every sentinel the sqlx package treats specially anywhere (acceptable(), breaker) next to a plain one.
func c14Errors() []error {
	return []error{
		c14ErrBody,
		context.Canceled,
		sql.ErrTxDone,
		sql.ErrNoRows,
		context.DeadlineExceeded,
		fmt.Errorf("wrapped: %w", context.Canceled),
		breaker.ErrServiceUnavailable,
	}
}

type c14World struct {
	userErr error // the error used by the failing statement / the body
	begun, commits, rollbacks, execs, bodyRuns int
	endedBeforeExec                           bool
	commitFails, rollbackFails                bool
	failAt                                    int // index of the statement that fails (-1: none)
	cancelDuringBody func() // cancels the caller's context at the end of a successful body (nil: never)
}

type c14Tx struct {
	Session // nil: any method the body does not use would trap
	w       *c14World
}

func (t c14Tx) Commit() error {
	t.w.commits++
	if t.w.commitFails {
		return c14ErrCommit
	}
	return nil
}

func (t c14Tx) Rollback() error {
	t.w.rollbacks++
	if t.w.rollbackFails {
		return c14ErrRollback
	}
	return nil
}

func (t c14Tx) ExecCtx(ctx context.Context, q string, args ...any) (sql.Result, error) {
	if t.w.commits+t.w.rollbacks > 0 {
		t.w.endedBeforeExec = true
	}
	i := t.w.execs
	t.w.execs++
	if i == t.w.failAt {
		return nil, t.w.userErr
	}
	return nil, nil
}

// c14Scenario draws every fault flag symbolically and returns the world, the beginnable and the body.
// c14Scenario: see the entry docs.
func c14Scenario() (*c14World, beginnable, func(context.Context, Session) error, int, int) {
	w := &c14World{failAt: -1}
	errs := c14Errors()
	w.userErr = errs[rt.Choose("errKind", len(errs))]
	beginFails := rt.Bool("beginFails")
	w.commitFails = rt.Bool("commitFails")
	w.rollbackFails = rt.Bool("rollbackFails")
	nStmts := rt.Choose("statements", 4)       // 0..3 statements in the body
	outcome := rt.Choose("bodyOutcome", 6)      // 0 ok, 1 return error, 2 panic(error), 3 panic(string), 4 panic(int), 5 panic(struct)
	after := rt.Choose("faultAfter", nStmts+1)  // body error / panic happens after this many statements
	if rt.Bool("stmtFails") && nStmts > 0 {
		w.failAt = rt.Choose("failAt", nStmts)
	}
	b := func(*sql.DB) (trans, error) {
		w.begun++
		if beginFails {
			return nil, c14ErrBegin
		}
		return c14Tx{w: w}, nil
	}
	body := func(ctx context.Context, s Session) error {
		w.bodyRuns++
		for j := 0; j < nStmts; j++ {
			if outcome != 0 && j == after {
				break
			}
			if _, err := s.ExecCtx(ctx, "update t set x = ?", j); err != nil {
				return err
			}
		}
		switch outcome {
		case 1:
			return w.userErr
		case 2:
			panic(w.userErr)
		case 3:
			panic("c14: body panicked")
		case 4:
			panic(42)
		case 5:
			panic(struct{ code int }{7})
		}
		if w.cancelDuringBody != nil {
			w.cancelDuringBody() // the caller gives up while the body is finishing; the body itself succeeded
		}
		return nil
	}
	return w, b, body, outcome, after
}

func c14Check(w *c14World, err error, escaped bool, outcome int) {
	rt.Assert(!escaped, "a panic in the body never escapes Transact (it is reported as an error)")
	if w.begun == 1 && w.commits+w.rollbacks == 0 && w.bodyRuns == 0 {
		// begin failed
		rt.Cover("beginFailed")
		rt.Assert(errors.Is(err, c14ErrBegin), "a failing begin is returned to the caller")
		return
	}
	rt.Assert(w.begun == 1, "exactly one transaction is begun")
	rt.Assert(w.bodyRuns == 1, "the body runs exactly once when the transaction began")
	rt.Assert(w.commits+w.rollbacks == 1, "the transaction is ended exactly once (one Commit or one Rollback)")
	rt.Assert(!w.endedBeforeExec, "no statement runs after the transaction has ended")
	bodyOK := outcome == 0 && (w.failAt < 0 || w.failAt >= w.execs)
	rt.Assert((w.commits == 1) == bodyOK, "Commit if and only if the body returned nil without panicking")
	rt.Assert((err == nil) == (w.commits == 1 && !w.commitFails), "nil is returned only when Commit was called and succeeded")
	if w.commits == 1 && w.commitFails {
		rt.Cover("commitFailed")
		rt.Assert(errors.Is(err, c14ErrCommit), "a commit failure is reported to the caller")
	}
	if w.rollbacks == 1 && w.rollbackFails {
		rt.Cover("rollbackFailed")
		rt.Assert(err != nil && errors.Is(err, c14ErrRollback), "a rollback failure is reported to the caller")
	}
	stmtFailed := w.failAt >= 0 && w.failAt < w.execs
	if w.rollbacks == 1 && !w.rollbackFails && outcome == 1 && !stmtFailed {
		rt.Assert(err == w.userErr, "the body's error is returned unchanged when the rollback succeeded")
	}
	if w.rollbacks == 1 && !w.rollbackFails && stmtFailed {
		rt.Assert(err == w.userErr, "a failing statement's error is returned unchanged when the rollback succeeded")
	}
	if outcome >= 2 {
		rt.Cover("panicked")
		rt.Assert(err != nil, "a panicking body never yields a nil error")
	}
}

//verif:entry native tier=quick,thorough cover=beginFailed,commitFailed,rollbackFailed,panicked,ctxdone
//verif:doc body of 0..3 statements; fault flags (begin/commit/rollback fail, statement j fails, body returns error or panics with an error, a string, an int or a struct value after j statements) all symbolic; optionally the caller's context is cancelled at the very end of a successful body (the outcome is still decided by the body: Commit, and nil only if it succeeded).
func Verif_C14_TransactOnConn() {
	w, b, body, outcome, _ := c14Scenario()
	ctx := context.Background()
	if rt.Bool("callerGivesUpDuringBody") {
		c, cancel := context.WithCancel(ctx)
		ctx, w.cancelDuringBody = c, cancel
		rt.Cover("ctxdone")
	}
	var err error
	escaped := true
	func() {
		defer func() { recover() }()
		err = transactOnConn(ctx, nil, b, body)
		escaped = false
	}()
	c14Check(w, err, escaped, outcome)
}

// c14Breaker is a pass-through breaker: admission is C01's subject, here only the wrapping matters.
type c14Breaker struct {
	breaker.Breaker
	accepted, rejected int
}

func (b *c14Breaker) DoWithAcceptableCtx(ctx context.Context, req func() error, acceptable breaker.Acceptable) error {
	err := req()
	if acceptable(err) {
		b.accepted++
	} else {
		b.rejected++
	}
	return err
}

//verif:entry native tier=quick,thorough cover=beginFailed,commitFailed,rollbackFailed,panicked
//verif:doc same fault space driven through commonSqlConn.TransactCtx (connection provider fault added; breaker replaced by a pass-through that records the acceptability verdict).
func Verif_C14_TransactCtx() {
	w, b, body, outcome, _ := c14Scenario()
	connFails := rt.Bool("connFails")
	brk := &c14Breaker{}
	onErrCalls := 0
	db := &commonSqlConn{
		connProv: func() (*sql.DB, error) {
			if connFails {
				return nil, c14ErrBegin
			}
			return nil, nil
		},
		onError: func(ctx context.Context, err error) { onErrCalls++ },
		beginTx: b,
		brk:     brk,
	}
	var err error
	escaped := true
	func() {
		defer func() { recover() }()
		err = db.TransactCtx(context.Background(), body)
		escaped = false
	}()
	if connFails {
		rt.Assert(!escaped && err != nil && w.begun == 0 && w.bodyRuns == 0, "no transaction is begun when no connection is available")
		return
	}
	c14Check(w, err, escaped, outcome)
	rt.Assert(brk.accepted+brk.rejected == 1, "the breaker sees exactly one outcome per Transact")
	rt.Assert(err != nil || brk.accepted == 1, "a successful transaction is reported to the breaker as a success")
}
