//verif:pkg rest/handler
package handler

// C05 — MaxConnsHandler: for every capacity n and every number c of connections already inside,
// the inner handler runs iff c < n (503 otherwise) and the permit is given back on return and on panic.

import (
	"net/http"

	"github.com/zeromicro/go-zero/core/syncx"
	rt "github.com/zeromicro/go-zero/internal/verifrt"
)

//verif:stub github.com/zeromicro/go-zero/rest/internal.Errorf c05Errorf
func c05Errorf(r *http.Request, format string, v ...any) {}

var c05Latch syncx.Limit
var c05Held int64

func c05NewLimit(n int) syncx.Limit {
	c05Latch = syncx.VerifSymLimit(int64(n), c05Held)
	return c05Latch
}

type c05Writer struct {
	code   int
	header http.Header
}

func (w *c05Writer) Header() http.Header         { return w.header }
func (w *c05Writer) Write(b []byte) (int, error) { return len(b), nil }
func (w *c05Writer) WriteHeader(code int)        { w.code = code }

//verif:entry tier=quick,thorough cover=admitted,refused,innerpanic
//verif:stub github.com/zeromicro/go-zero/core/syncx.NewLimit c05NewLimit
//verif:doc MaxConnsHandler: n in [1,2^40] and connections already inside c in [0,n] symbolic; one request whose inner handler returns or panics (symbolic).
func Verif_C05_MaxConns() {
	n := rt.Int("n", 1, 1<<40)
	c := rt.Int("inside", 0, 1<<40)
	rt.Assume(c <= n)
	c05Held = c
	boom := rt.Bool("innerPanics")
	ran := 0
	inner := http.HandlerFunc(func(w http.ResponseWriter, r *http.Request) {
		ran++
		rt.Assert(syncx.VerifLimitHeld(c05Latch) == c+1, "the request holds exactly one permit while inside")
		rt.Assert(syncx.VerifLimitHeld(c05Latch) <= n, "never more than n requests inside")
		if boom {
			panic("inner handler failed")
		}
	})
	h := MaxConnsHandler(int(n))(inner)
	w := &c05Writer{header: http.Header{}}
	req := &http.Request{Method: "GET"}
	panicked := false
	func() {
		defer func() {
			if p := recover(); p != nil {
				panicked = true
			}
		}()
		h.ServeHTTP(w, req)
	}()
	if ran == 1 {
		rt.Cover("admitted")
		rt.Assert(c < n, "a request is admitted only while fewer than n are inside")
		rt.Assert(panicked == boom, "the inner handler's panic propagates")
		if boom {
			rt.Cover("innerpanic")
		}
	} else {
		rt.Cover("refused")
		rt.Assert(ran == 0 && c == n, "a request is refused only when n are inside, and then the inner handler is not called")
		rt.Assert(w.code == http.StatusServiceUnavailable, "a refused request gets 503")
	}
	rt.Assert(syncx.VerifLimitHeld(c05Latch) == c, "the permit is returned on normal return and on panic; a refused request holds none")
}

//verif:entry tier=quick,thorough cover=passthrough
//verif:doc MaxConnsHandler(n <= 0) installs no limit: the inner handler always runs.
func Verif_C05_MaxConnsDisabled() {
	n := rt.Int("n", -(1 << 40), 0)
	ran := 0
	inner := http.HandlerFunc(func(w http.ResponseWriter, r *http.Request) { ran++ })
	h := MaxConnsHandler(int(n))(inner)
	h.ServeHTTP(&c05Writer{header: http.Header{}}, &http.Request{Method: "GET"})
	rt.Cover("passthrough")
	rt.Assert(ran == 1, "n <= 0 means unlimited")
}
