//verif:pkg core/syncx
package syncx

// C05 — syncx.Limit / TimeoutLimit / Pool (DESIGN §4 C05).
// Limit: the channel is put into the engine's symbolic-counter mode, so capacity n and occupancy c
// are solver variables: one operation from an arbitrary state 0 <= c <= n covers every capacity and,
// by induction on the invariant "holders = c, 0 <= c <= n", every history and interleaving (each
// method performs exactly one channel operation).

import (
	"time"

	"github.com/zeromicro/go-zero/core/lang"
	rt "github.com/zeromicro/go-zero/internal/verifrt"
)

// VerifSymLimit builds a Limit whose capacity and number of permits taken are symbolic.
func VerifSymLimit(n, c int64) Limit {
	l := Limit{pool: make(chan lang.PlaceholderType, 1)}
	rt.SymChan(l.pool, n, c)
	return l
}

// VerifLimitHeld reports the number of permits currently taken.
func VerifLimitHeld(l Limit) int64 { return rt.ChanLen(l.pool) }

const c05Max = int64(1) << 40

//verif:entry tier=quick,thorough cover=tryok,tryfull,retok,retempty,borrowok,borrowblocks
//verif:doc Limit: capacity n in [1,2^40] and permits taken c in [0,n] symbolic (channel = symbolic counter); one TryBorrow / Return / Borrow; Borrow on a full limit must block.
func Verif_C05_LimitStep() {
	n := rt.Int("cap", 1, c05Max)
	c := rt.Int("held", 0, c05Max)
	rt.Assume(c <= n)
	l := VerifSymLimit(n, c)
	switch rt.Choose("op", 3) {
	case 0:
		ok := l.TryBorrow()
		after := rt.ChanLen(l.pool)
		if ok {
			rt.Cover("tryok")
			rt.Assert(c < n, "TryBorrow succeeds only while fewer than n permits are out")
			rt.Assert(after == c+1, "a successful TryBorrow takes exactly one permit")
		} else {
			rt.Cover("tryfull")
			rt.Assert(c == n, "TryBorrow refuses only when all n permits are out")
			rt.Assert(after == c, "a refused TryBorrow takes no permit")
		}
		rt.Assert(after >= 0 && after <= n, "0 <= holders <= n")
	case 1:
		err := l.Return()
		after := rt.ChanLen(l.pool)
		if err == nil {
			rt.Cover("retok")
			rt.Assert(c > 0, "Return succeeds only if a permit was out")
			rt.Assert(after == c-1, "Return gives back exactly one permit")
		} else {
			rt.Cover("retempty")
			rt.Assert(err == ErrLimitReturn, "an excess Return is reported as ErrLimitReturn")
			rt.Assert(c == 0, "Return fails only when nothing was borrowed")
			rt.Assert(after == 0, "an excess Return never raises the capacity")
		}
		rt.Assert(after >= 0 && after <= n, "0 <= holders <= n")
	case 2:
		done := false
		go func() {
			l.Borrow()
			done = true
		}()
		rt.WaitIdle()
		after := rt.ChanLen(l.pool)
		if done {
			rt.Cover("borrowok")
			rt.Assert(c < n, "Borrow returns only when a permit was free")
			rt.Assert(after == c+1, "Borrow takes exactly one permit")
		} else {
			rt.Cover("borrowblocks")
			rt.Assert(c == n, "Borrow blocks only when all permits are out")
			rt.Assert(after == c, "a blocked Borrow holds no permit")
		}
	}
}

//verif:entry tier=quick,thorough cover=granted,timedout,returned
//verif:doc TimeoutLimit: capacity 1..2, h permits pre-taken, one Borrow(timeout) with symbolic timeout racing with 0..2 Return calls and the timer (environment event) under every interleaving; permits are conserved and the result is nil iff a permit was obtained.
func Verif_C05_TimeoutLimit() {
	n := rt.Choose("cap", 2) + 1
	h := rt.Choose("held", n+1)
	l := NewTimeoutLimit(n)
	for i := 0; i < h; i++ {
		rt.Assert(l.TryBorrow(), "pre-borrow within capacity succeeds")
	}
	d := rt.Int("timeout_ns", 1, 1<<40)
	nret := rt.Choose("returns", 3)
	var berr error
	bdone := false
	go func() {
		berr = l.Borrow(time.Duration(d))
		bdone = true
	}()
	okRet := 0
	for i := 0; i < nret; i++ {
		if err := l.Return(); err == nil {
			okRet++
			rt.Cover("returned")
		} else {
			rt.Assert(err == ErrLimitReturn, "excess Return reports ErrLimitReturn")
		}
	}
	rt.WaitIdle()
	rt.Assert(bdone, "Borrow(timeout) returns (by permit or by timeout), it never hangs")
	held := int(rt.ChanLen(l.limit.pool))
	if berr == nil {
		rt.Cover("granted")
		rt.Assert(held == h-okRet+1, "a granted Borrow holds exactly one permit; none is lost or duplicated")
	} else {
		rt.Cover("timedout")
		rt.Assert(berr == ErrTimeout, "the only error of Borrow(timeout) is ErrTimeout")
		rt.Assert(held == h-okRet, "a timed-out Borrow holds no permit")
	}
	rt.Assert(held >= 0 && held <= n, "0 <= holders <= n")
	rt.Assert(okRet <= h+1, "no more successful Returns than permits ever out")
}

// ---------------------------------------------------------------- Pool

type c05Res struct{ id int }

//verif:entry tier=quick,thorough cover=reused,expired,waited
//verif:doc Pool: limit 1..2, 2 users (quick) / 3 users (thorough), each Get / use / Put, maxAge and clock advances symbolic, every interleaving at lock/cond granularity: a resource is never held by two users, at most limit resources exist, destroyed resources are never handed out.
func Verif_C05_Pool() {
	limit := rt.Choose("limit", 2) + 1
	users := 2
	if rt.Tier() > 0 {
		users = 3
	}
	created, destroyed := 0, 0
	owner := map[int]int{}   // resource id -> user+1 while held
	dead := map[int]bool{}
	maxAge := rt.Int("maxAge_ns", 0, 1<<40)
	p := NewPool(limit, func() any {
		created++
		rt.Assert(created-destroyed <= limit, "never more than limit live resources")
		return &c05Res{id: created}
	}, func(x any) {
		destroyed++
		r := x.(*c05Res)
		rt.Assert(owner[r.id] == 0, "a resource in use is never destroyed")
		dead[r.id] = true
		rt.Cover("expired")
	}, WithMaxAge(time.Duration(maxAge)))
	fin := 0
	holding := 0
	for u := 0; u < users; u++ {
		u := u
		go func() {
			x := p.Get()
			r := x.(*c05Res)
			rt.Assert(owner[r.id] == 0, "a pooled resource is never held by two users at once")
			rt.Assert(!dead[r.id], "a destroyed resource is never handed out")
			if r.id <= created && holding > 0 {
				rt.Cover("waited")
			}
			owner[r.id] = u + 1
			holding++
			rt.Assert(holding <= limit, "at most limit users inside the guarded region")
			rt.Yield()
			rt.Advance(rt.Int("hold_ns", 0, 1<<40))
			holding--
			owner[r.id] = 0
			p.Put(x)
			rt.Advance(rt.Int("idle_ns", 0, 1<<40))
			fin++
		}()
	}
	rt.WaitIdle()
	rt.Assert(fin == users, "every user eventually obtains a resource (no lost wake-up, no leaked capacity)")
	rt.Assert(p.created == created-destroyed && p.created <= limit, "created counter equals live resources and never exceeds the limit")
	// everything is back in the pool: the full capacity is available again
	n := 0
	for nd := p.head; nd != nil; nd = nd.next {
		n++
		if n > 1 {
			rt.Cover("reused")
		}
	}
	rt.Assert(n == p.created, "after all users finished every live resource is back in the pool")
}

//verif:entry tier=quick,thorough cover=allexpired,noneexpired,regot
//verif:doc Pool capacity after expiry: limit 1..3, k <= limit resources obtained and put back (symbolic idle times in between), clock advanced by a symbolic amount against a symbolic maxAge, then `limit` Gets: none may block, every expired resource is destroyed exactly once and uncounted.
func Verif_C05_PoolExpiry() {
	limit := rt.Choose("limit", 3) + 1
	k := rt.Choose("k", limit) + 1
	created, destroyed := 0, 0
	dead := map[int]int{}
	maxAge := rt.Int("maxAge_ns", 0, 1<<40)
	p := NewPool(limit, func() any {
		created++
		return &c05Res{id: created}
	}, func(x any) {
		destroyed++
		dead[x.(*c05Res).id]++
	}, WithMaxAge(time.Duration(maxAge)))
	var held []any
	for i := 0; i < k; i++ {
		held = append(held, p.Get())
	}
	for _, x := range held {
		p.Put(x)
		rt.Advance(rt.Int("gap_ns", 0, 1<<40))
	}
	rt.Advance(rt.Int("idle_ns", 0, 1<<41))
	got := 0
	seen := map[int]bool{}
	go func() {
		for i := 0; i < limit; i++ {
			r := p.Get().(*c05Res)
			rt.Assert(!seen[r.id], "the same resource is never handed out twice while held")
			rt.Assert(dead[r.id] == 0, "a destroyed resource is never handed out")
			seen[r.id] = true
			got++
		}
	}()
	rt.WaitIdle()
	rt.Assert(got == limit, "with nothing held, `limit` Gets succeed without blocking: no capacity leaked by expiry")
	rt.Assert(p.created == created-destroyed && p.created <= limit, "created counter = live resources <= limit")
	for _, n := range dead {
		rt.Assert(n == 1, "an expired resource is destroyed exactly once")
	}
	if destroyed == k {
		rt.Cover("allexpired")
	}
	if destroyed == 0 {
		rt.Cover("noneexpired")
	}
	if created == k {
		rt.Cover("regot")
	}
}
