//verif:pkg core/mr
package mr

// C05 — worker cap of MapReduce / ForEach (executeMappers' slot pool): at most `workers` mappers run at
// any instant (the full MapReduce protocol is C10's subject).

import (
	rt "github.com/zeromicro/go-zero/internal/verifrt"
)

//verif:entry tier=quick,thorough steps=4000000 preempt=1,2 cover=foreach,mapreduce
//verif:doc ForEach / MapReduce with WithWorkers(1) (thorough also 2) over 2 (thorough 3) items whose mappers yield in the middle: at most `workers` mappers are in progress at any instant; schedules with at most 1 (quick) / 2 (thorough) preemptions.
func Verif_C05_MrWorkerCap() {
	n, workers := 2, 1
	if rt.Tier() > 0 {
		n = 2 + rt.Choose("items", 2)
		workers = 1 + rt.Choose("workers", 2)
	}
	gauge := 0
	enter := func() {
		gauge++
		rt.Assert(gauge <= workers, "at most the configured number of mappers run concurrently")
		rt.Yield()
		gauge--
	}
	gen := func(source chan<- int) {
		for i := 0; i < n; i++ {
			source <- i
		}
	}
	if rt.Choose("api", 2) == 0 {
		rt.Cover("foreach")
		ForEach(gen, func(item int) { enter() }, WithWorkers(workers))
	} else {
		rt.Cover("mapreduce")
		MapReduceVoid(gen, func(item int, w Writer[int], cancel func(error)) { enter() }, func(pipe <-chan int, cancel func(error)) {
			for range pipe {
			}
		}, WithWorkers(workers))
	}
}
