//verif:pkg core/threading
package threading

// C05 — TaskRunner: at most `concurrency` tasks inside the guarded region under every interleaving,
// slots are released on normal return and on panic, ScheduleImmediately refuses iff no slot is free.

import (
	rt "github.com/zeromicro/go-zero/internal/verifrt"
)

//verif:entry dpor tier=quick,thorough cover=panicked,blocked
//verif:doc TaskRunner: concurrency 1..2, 3 tasks (each may panic, symbolic flag), Schedule from the main goroutine, every interleaving: gauge inside tasks <= concurrency; after Wait the slot channel is empty.
func Verif_C05_TaskRunner() {
	c := rt.Choose("concurrency", 2) + 1
	tr := NewTaskRunner(c)
	gauge, ran := 0, 0
	const tasks = 3
	for i := 0; i < tasks; i++ {
		boom := rt.Bool("panics")
		if int(rt.ChanLen(tr.limitChan)) == c {
			rt.Cover("blocked")
		}
		tr.Schedule(func() {
			gauge++
			rt.Assert(gauge <= c, "never more than `concurrency` tasks run at once")
			rt.Yield()
			gauge--
			ran++
			if boom {
				rt.Cover("panicked")
				panic("task failed")
			}
		})
		rt.Assert(int(rt.ChanLen(tr.limitChan)) <= c, "slots taken <= concurrency")
	}
	tr.Wait()
	rt.Assert(ran == tasks, "every scheduled task ran exactly once before Wait returned")
	rt.Assert(rt.ChanLen(tr.limitChan) == 0, "after Wait all slots are free again (also after panics)")
	rt.Assert(gauge == 0, "no task is still inside the guarded region")
}

//verif:entry dpor tier=quick,thorough cover=busy,accepted,holderpanicked
//verif:doc TaskRunner.ScheduleImmediately: concurrency 1..2, k tasks holding their slot, one ScheduleImmediately: ErrTaskRunnerBusy iff k = concurrency, and then the task never runs and no slot/WaitGroup count is leaked.
func Verif_C05_ScheduleImmediately() {
	c := rt.Choose("concurrency", 2) + 1
	k := rt.Choose("holders", c+1)
	tr := NewTaskRunner(c)
	release := make(chan struct{})
	for i := 0; i < k; i++ {
		boom := rt.Bool("holderPanics")
		err := tr.ScheduleImmediately(func() {
			<-release
			if boom {
				rt.Cover("holderpanicked")
				panic("holder failed")
			}
		})
		rt.Assert(err == nil, "ScheduleImmediately accepts while a slot is free")
	}
	rt.WaitIdle()
	ran := false
	err := tr.ScheduleImmediately(func() { ran = true })
	if k == c {
		rt.Cover("busy")
		rt.Assert(err == ErrTaskRunnerBusy, "ScheduleImmediately refuses with ErrTaskRunnerBusy when no slot is free")
	} else {
		rt.Cover("accepted")
		rt.Assert(err == nil, "ScheduleImmediately accepts when a slot is free")
	}
	close(release)
	tr.Wait()
	rt.Assert(ran == (err == nil), "a refused task never runs, an accepted one runs once")
	rt.Assert(rt.ChanLen(tr.limitChan) == 0, "all slots free after Wait (the refused call and panicking tasks leaked nothing)")
	// the full capacity is available again
	for i := 0; i < c; i++ {
		rt.Assert(tr.ScheduleImmediately(func() { <-release }) == nil, "after all holders finished (including by panic) the full capacity is available again")
	}
	tr.Wait()
}
