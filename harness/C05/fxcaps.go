//verif:pkg core/fx
package fx

// C05 — worker caps of the fx stream operators (Walk / Filter / Map / Parallel with WithWorkers(n)):
// at most n user functions run at any instant; every item is processed exactly once.

import (
	rt "github.com/zeromicro/go-zero/internal/verifrt"
)

//verif:entry tier=quick,thorough steps=4000000 preempt=1,2 cover=walk,filter,mapop,parallel
//verif:doc fx stream operators under a worker cap: Just(2 items, thorough 3) piped through Walk / Filter / Map / Parallel with WithWorkers(1) (thorough also 2): the user function yields in the middle; at most `workers` invocations are in progress at any instant and every item is processed exactly once; schedules with at most 1 (quick) / 2 (thorough) preemptions.
func Verif_C05_FxWorkerCap() {
	n, workers := 2, 1
	if rt.Tier() > 0 {
		n = 2 + rt.Choose("items", 2)
		workers = 1 + rt.Choose("workers", 2)
	}
	items := make([]any, n)
	for i := range items {
		items[i] = i
	}
	gauge := 0
	seen := make([]int, n)
	enter := func(item any) {
		seen[item.(int)]++
		gauge++
		rt.Assert(gauge <= workers, "at most the configured number of stream workers run concurrently")
		rt.Yield()
		gauge--
	}
	op := rt.Choose("operator", 4)
	switch op {
	case 0:
		rt.Cover("walk")
		Just(items...).Walk(func(item any, pipe chan<- any) { enter(item); pipe <- item }, WithWorkers(workers)).Done()
	case 1:
		rt.Cover("filter")
		Just(items...).Filter(func(item any) bool { enter(item); return true }, WithWorkers(workers)).Done()
	case 2:
		rt.Cover("mapop")
		Just(items...).Map(func(item any) any { enter(item); return item }, WithWorkers(workers)).Done()
	case 3:
		rt.Cover("parallel")
		Just(items...).Parallel(func(item any) { enter(item) }, WithWorkers(workers))
	}
	for i := 0; i < n; i++ {
		rt.Assert(seen[i] == 1, "every item of the stream is processed exactly once")
	}
}
