//verif:pkg rest/handler
package handler

// C18 — authentication gates (DESIGN §4 C18.1, C18.3, C18.4): the real Authorize middleware with
// token.TokenParser, the real LimitContentSecurityHandler gate and the real LimitCryptionHandler /
// decryptBody / cryptionResponseWriter. The cryptography is ideal: jwt parsing+verification is replaced
// by its contract at the library boundary (request.ParseFromRequest: a token is returned without error
// iff it is signed with the key the key function yields, uses an HMAC algorithm and its time claims
// are valid), AES is an ideal block cipher, base64 an ideal injective codec. Unforgeability itself is
// outside the claim; which secret is tried, what is rejected, what reaches the handler is inside.

import (
	"bytes"
	"crypto/cipher"
	"encoding/base64"
	"errors"
	"io"
	"net/http"
	"strings"
	"time"

	"github.com/golang-jwt/jwt/v4"
	"github.com/golang-jwt/jwt/v4/request"
	"github.com/zeromicro/go-zero/core/codec"
	rt "github.com/zeromicro/go-zero/internal/verifrt"
	"github.com/zeromicro/go-zero/rest/httpx"
	"github.com/zeromicro/go-zero/rest/internal/security"
)

// ---------- recording response writer

type c18RW struct {
	h    http.Header
	code int
	body []byte
}

func (w *c18RW) Header() http.Header { return w.h }
func (w *c18RW) WriteHeader(c int) {
	if w.code == 0 {
		w.code = c
	}
}
func (w *c18RW) Write(p []byte) (int, error) {
	if w.code == 0 {
		w.code = 200
	}
	w.body = append(w.body, p...)
	return len(p), nil
}

func c18NoLog(r *http.Request, reason string) {}

//verif:stub github.com/zeromicro/go-zero/rest/handler.detailAuthLog c18NoLog

// ---------- jwt library contract

type c18Token struct {
	signedWith string // secret the token's HMAC was computed with ("" = garbage / missing token)
	algHMAC    bool   // false: alg none or an asymmetric algorithm
	timeValid  bool   // exp/nbf/iat currently valid
	mapClaims  bool   // claims decode to jwt.MapClaims
	claims     jwt.MapClaims
}

var (
	c18Cur      *c18Token
	c18Tried    []string
	c18LibQuirk bool // the library hands back a token with Valid=false and no error (outside its contract)
	c18ErrJwt   = errors.New("c18: token is invalid")
)

func c18ParseFromRequest(req *http.Request, extractor request.Extractor, keyFunc jwt.Keyfunc, options ...request.ParseFromRequestOption) (*jwt.Token, error) {
	t := c18Cur
	tok := &jwt.Token{Claims: jwt.MapClaims{}}
	if !t.mapClaims {
		tok.Claims = jwt.RegisteredClaims{}
	} else {
		tok.Claims = t.claims
	}
	key, err := keyFunc(tok)
	if err != nil {
		return tok, err
	}
	kb, isBytes := key.([]byte)
	rt.Assert(isBytes, "the key function yields HMAC key bytes")
	c18Tried = append(c18Tried, string(kb))
	if t.signedWith == "" || !t.algHMAC || !t.timeValid || string(kb) != t.signedWith {
		return tok, c18ErrJwt
	}
	if c18LibQuirk {
		return tok, nil // Valid stays false
	}
	tok.Valid = true
	return tok, nil
}

//verif:entry tier=quick,thorough steps=3000000 maporder=first cover=accepted,rejected,prevsecret,history,quirk,nonmap
//verif:stub github.com/golang-jwt/jwt/v4/request.ParseFromRequest c18ParseFromRequest
//verif:doc Authorize with secret "cur" and optionally previous secret "prev": two consecutive requests, each carrying a token signed with cur / prev / another secret / nothing, with HMAC or non-HMAC algorithm, time claims valid or not, claims decoding to MapClaims or not (jwt library replaced by its contract at request.ParseFromRequest; the key function of the real doParseToken is executed). The protected handler runs iff the token verifies under the current or the configured previous secret, uses HMAC and is time-valid (independently of the success history that orders the two secrets); otherwise 401 and the handler is not called; the handler's context carries exactly the non-standard claims.
func Verif_C18_Authorize() {
	withPrev := rt.Choose("withPrev", 2) == 1
	var opts []AuthorizeOption
	if withPrev {
		opts = append(opts, WithPrevSecret("prev"))
	}
	ran := 0
	var seen *http.Request
	mw := Authorize("cur", opts...)(http.HandlerFunc(func(w http.ResponseWriter, r *http.Request) {
		ran++
		seen = r
		w.WriteHeader(http.StatusOK)
	}))
	requests := 2
	for i := 0; i < requests; i++ {
		t := &c18Token{
			signedWith: []string{"", "cur", "prev", "other"}[rt.Choose("signedWith", 4)],
			algHMAC:    rt.Choose("algHMAC", 2) == 1,
			timeValid:  rt.Choose("timeValid", 2) == 1,
			mapClaims:  true,
		}
		// keep the product small: only a fully valid token is combined with the remaining variations
		fully := t.signedWith != "" && t.algHMAC && t.timeValid
		c18LibQuirk = false
		if fully && i == 0 {
			switch rt.Choose("variant", 3) {
			case 1:
				c18LibQuirk = true
			case 2:
				t.mapClaims = false
			}
		}
		uid := rt.Int("uid", 0, 1000000)
		t.claims = jwt.MapClaims{"exp": int64(1), "iss": "issuer", "userId": uid, "role": "admin", "sub": "s", "aud": "a", "jti": "j", "iat": int64(0), "nbf": int64(0)}
		c18Cur, c18Tried = t, nil
		ran, seen = 0, nil
		rec := &c18RW{h: http.Header{}}
		req := &http.Request{Method: "GET", Header: http.Header{"Authorization": {"Bearer token"}}}
		mw.ServeHTTP(rec, req)
		want := fully && (t.signedWith == "cur" || (t.signedWith == "prev" && withPrev)) && !c18LibQuirk && t.mapClaims
		if want {
			rt.Cover("accepted")
			if t.signedWith == "prev" {
				rt.Cover("prevsecret")
			}
			if i == 1 {
				rt.Cover("history")
			}
			rt.Assert(ran == 1 && rec.code == http.StatusOK, "a request with a token valid under the current or previous secret reaches the handler exactly once")
			ctx := seen.Context()
			rt.Assert(ctx.Value("userId") == any(uid) && ctx.Value("role") == any("admin"), "the non-standard claims are what the handler sees")
			for _, k := range []string{"exp", "iss", "sub", "aud", "jti", "iat", "nbf"} {
				rt.Assert(ctx.Value(k) == nil, "standard claims are not copied into the handler's context")
			}
		} else {
			rt.Cover("rejected")
			if c18LibQuirk {
				rt.Cover("quirk")
			}
			if !t.mapClaims {
				rt.Cover("nonmap")
			}
			rt.Assert(ran == 0, "any request without a currently valid token under the current or previous secret never reaches the handler")
			rt.Assert(rec.code == http.StatusUnauthorized, "and is answered 401")
		}
		for _, s := range c18Tried {
			rt.Assert(s == "cur" || (withPrev && s == "prev"), "only the configured secrets are ever used as verification keys")
		}
		if !withPrev {
			rt.Assert(len(c18Tried) == 1 && c18Tried[0] == "cur", "without a previous secret exactly the current secret is tried")
		}
	}
}

// ---------- strict content security gate

var (
	c18HdrErr  bool
	c18SigCode int
	c18Hdr     *security.ContentSecurityHeader
	c18Parsed  int
	c18Verfd   int
)

var c18ErrHeader = errors.New("c18: bad security header")

func c18ParseCS(decrypters map[string]codec.RsaDecrypter, r *http.Request) (*security.ContentSecurityHeader, error) {
	c18Parsed++
	if c18HdrErr {
		return nil, c18ErrHeader
	}
	return c18Hdr, nil
}

func c18Verify(r *http.Request, h *security.ContentSecurityHeader, tolerance time.Duration) int {
	c18Verfd++
	rt.Assert(h == c18Hdr, "the parsed header is the one that is verified")
	return c18SigCode
}

//verif:entry tier=quick,thorough steps=2000000 cover=pass,forbidden,lenient,unchecked
//verif:stub github.com/zeromicro/go-zero/rest/internal/security.ParseContentSecurity c18ParseCS
//verif:stub github.com/zeromicro/go-zero/rest/internal/security.VerifySignature c18Verify
//verif:doc LimitContentSecurityHandler gate (header parsing and signature verification replaced by arbitrary outcomes: parse error or header, any of the four verification codes): strict mode lets the handler run only after the signature passed, every other outcome is answered 403 without calling the handler; lenient mode always calls the handler exactly once; methods DELETE/GET/POST/PUT plus PATCH/HEAD/OPTIONS.
func Verif_C18_ContentSecurityGate() {
	strict := rt.Choose("strict", 2) == 1
	method := []string{"GET", "POST", "PUT", "DELETE", "PATCH", "HEAD", "OPTIONS"}[rt.Choose("method", 7)]
	c18HdrErr = rt.Choose("hdrErr", 2) == 1
	c18SigCode = rt.Choose("code", 4)
	c18Hdr = &security.ContentSecurityHeader{Key: []byte("0123456789abcdef"), ContentType: 0}
	c18Parsed, c18Verfd = 0, 0
	ran := 0
	h := LimitContentSecurityHandler(maxBytes, nil, time.Minute, strict)(http.HandlerFunc(func(w http.ResponseWriter, r *http.Request) {
		ran++
	}))
	rec := &c18RW{h: http.Header{}}
	h.ServeHTTP(rec, &http.Request{Method: method, Header: http.Header{}})
	verified := !c18HdrErr && c18SigCode == httpx.CodeSignaturePass
	checkedMethod := method == "GET" || method == "POST" || method == "PUT" || method == "DELETE"
	if !strict {
		rt.Cover("lenient")
		rt.Assert(ran == 1, "lenient content security always calls the handler exactly once")
		return
	}
	if ran > 0 && !checkedMethod {
		rt.Cover("unchecked")
		rt.Assert(c18Parsed > 0, "strict content security lets a request whose method is not DELETE/GET/POST/PUT reach the handler without any signature check")
	}
	if verified && checkedMethod {
		rt.Cover("pass")
		rt.Assert(ran == 1 && rec.code == 0, "a verified request reaches the handler exactly once")
	} else {
		rt.Cover("forbidden")
		rt.Assert(ran == 0, "in strict mode the handler runs only when the signature verification passed")
		rt.Assert(rec.code == http.StatusForbidden, "a request that fails verification is answered 403")
	}
}

// ---------- encrypted body round trip

type c18Rec struct{ in, out [16]byte }
type c18Ideal struct{ recs []*c18Rec }

var c18Cipher *c18Ideal

func (b *c18Ideal) BlockSize() int { return 16 }
func (b *c18Ideal) Encrypt(dst, src []byte) {
	rec := &c18Rec{}
	out := rt.Bytes("ct", 16)
	for j := 0; j < 16; j++ {
		rec.in[j] = src[j]
		rec.out[j] = out[j]
	}
	for _, prev := range b.recs {
		sameIn, sameOut := true, true
		for j := 0; j < 16; j++ {
			sameIn = rt.And(sameIn, rec.in[j] == prev.in[j])
			sameOut = rt.And(sameOut, rec.out[j] == prev.out[j])
		}
		rt.Assume(rt.Or(rt.And(sameIn, sameOut), rt.And(!sameIn, !sameOut)))
	}
	for j := 0; j < 16; j++ {
		dst[j] = out[j]
	}
	b.recs = append(b.recs, rec)
}
func (b *c18Ideal) Decrypt(dst, src []byte) {
	for _, rec := range b.recs {
		eq := true
		for j := 0; j < 16; j++ {
			eq = rt.And(eq, src[j] == rec.out[j])
		}
		if eq {
			for j := 0; j < 16; j++ {
				dst[j] = rec.in[j]
			}
			return
		}
	}
	copy(dst, rt.Bytes("pt", 16))
}

func c18NewCipher(key []byte) (cipher.Block, error) {
	if n := len(key); n != 16 && n != 24 && n != 32 {
		return nil, errors.New("c18: bad key size")
	}
	if c18Cipher == nil {
		c18Cipher = &c18Ideal{}
	}
	return c18Cipher, nil
}

// ideal base64: an injective codec with a recognisable image
var c18B64 [][]byte

func c18B64Encode(enc *base64.Encoding, src []byte) string {
	c18B64 = append(c18B64, append([]byte{}, src...))
	return "b64#" + string(rune('0'+len(c18B64)-1))
}

func c18B64Decode(enc *base64.Encoding, s string) ([]byte, error) {
	if len(s) == 5 && s[:4] == "b64#" {
		if i := int(s[4] - '0'); i >= 0 && i < len(c18B64) {
			return append([]byte{}, c18B64[i]...), nil
		}
	}
	return nil, base64.CorruptInputError(0)
}

//verif:entry tier=quick,thorough steps=4000000 cover=roundtrip,emptyresponse,garbage
//verif:stub crypto/aes.NewCipher c18NewCipher
//verif:stub (*encoding/base64.Encoding).EncodeToString c18B64Encode
//verif:stub (*encoding/base64.Encoding).DecodeString c18B64Decode
//verif:doc LimitCryptionHandler / decryptBody / cryptionResponseWriter.flush with an ideal block cipher and an ideal base64: a request body of 1, 15, 16 or 17 (thorough also 31..33) arbitrary bytes encrypted by the client reaches the handler decrypted byte for byte; what the handler writes (0, 1, 16 or 17 arbitrary bytes, in one or two Write calls) comes back encrypted and decrypts on the client to exactly those bytes; a body that is not valid base64 is answered 400 and the handler is not called.
func Verif_C18_Cryption() {
	c18Cipher, c18B64 = nil, nil
	key := []byte("0123456789abcdef")
	lens := []int{1, 15, 16, 17}
	if rt.Tier() > 0 {
		lens = append(lens, 31, 32, 33)
	}
	n := lens[rt.Choose("reqLen", len(lens))]
	m := []int{0, 1, 16, 17}[rt.Choose("respLen", 4)]
	split := rt.Choose("split", 2) == 1
	payload := rt.Bytes("p", n)
	resp := rt.Bytes("r", m)
	garbage := rt.Choose("garbage", 2) == 1
	var body string
	if garbage {
		body = "not base64!"
	} else {
		ct, err := codec.EcbEncrypt(key, append([]byte{}, payload...))
		rt.Assert(err == nil, "client-side encryption succeeds")
		body = base64.StdEncoding.EncodeToString(ct)
	}
	ran := 0
	h := LimitCryptionHandler(maxBytes, key)(http.HandlerFunc(func(w http.ResponseWriter, r *http.Request) {
		ran++
		got, err := io.ReadAll(r.Body)
		rt.Assert(err == nil && len(got) == n, "the handler reads a body of the original length")
		for i := 0; i < n && i < len(got); i++ {
			rt.Assert(got[i] == payload[i], "an encrypted body reaches the handler decrypted, byte for byte")
		}
		if split && m > 1 {
			w.Write(resp[:1])
			w.Write(resp[1:])
		} else if m > 0 {
			w.Write(resp)
		}
	}))
	rec := &c18RW{h: http.Header{}}
	req := &http.Request{Method: "POST", Header: http.Header{}, ContentLength: int64(len(body)), Body: io.NopCloser(strings.NewReader(body))}
	h.ServeHTTP(rec, req)
	if garbage {
		rt.Cover("garbage")
		rt.Assert(ran == 0 && rec.code == http.StatusBadRequest, "a body that does not decode is answered 400 and never reaches the handler")
		return
	}
	rt.Assert(ran == 1, "the handler runs exactly once")
	if m == 0 {
		rt.Cover("emptyresponse")
		rt.Assert(len(rec.body) == 0, "nothing written, nothing sent")
		return
	}
	ct, err := base64.StdEncoding.DecodeString(string(rec.body))
	rt.Assert(err == nil, "the response body is base64")
	back, err := codec.EcbDecrypt(key, ct)
	rt.Assert(err == nil && len(back) == m, "the response decrypts on the client to the original length")
	for i := 0; i < m && i < len(back); i++ {
		rt.Assert(back[i] == resp[i], "the response is returned encrypted and round-trips to exactly what the handler wrote")
	}
	rt.Assert(!bytes.Equal(rec.body, resp) || m == 0, "the response is not sent in the clear")
	rt.Cover("roundtrip")
}
