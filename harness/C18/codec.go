//verif:pkg core/codec
package codec

// C18 — AES-ECB codec kernels (DESIGN §4 C18.4): the real pkcs5Padding / pkcs5Unpadding /
// ecbEncrypter.CryptBlocks / ecbDecrypter.CryptBlocks / EcbEncrypt / EcbDecrypt with the AES block
// cipher replaced by an ideal block cipher (every encrypted block is 16 fresh solver bytes; decrypting
// a block returns the plaintext recorded for it, any other block decrypts to fresh bytes).
// Cryptographic strength is outside the claim; block stepping, padding arithmetic and glue are inside.

import (
	"crypto/cipher"

	rt "github.com/zeromicro/go-zero/internal/verifrt"
)

type c18Rec struct{ in, out [16]byte }

type c18Ideal struct{ recs []*c18Rec }

var c18Cipher *c18Ideal

func (b *c18Ideal) BlockSize() int { return 16 }

func (b *c18Ideal) Encrypt(dst, src []byte) {
	rec := &c18Rec{}
	out := rt.Bytes("ct", 16)
	for j := 0; j < 16; j++ {
		rec.in[j] = src[j]
		rec.out[j] = out[j]
	}
	// a block cipher is a permutation: equal blocks encrypt equally, different blocks differently
	for _, prev := range b.recs {
		sameIn, sameOut := true, true
		for j := 0; j < 16; j++ {
			sameIn = rt.And(sameIn, rec.in[j] == prev.in[j])
			sameOut = rt.And(sameOut, rec.out[j] == prev.out[j])
		}
		rt.Assume(rt.Or(rt.And(sameIn, sameOut), rt.And(!sameIn, !sameOut)))
	}
	for j := 0; j < 16; j++ {
		dst[j] = out[j]
	}
	b.recs = append(b.recs, rec)
}

func (b *c18Ideal) Decrypt(dst, src []byte) {
	for _, rec := range b.recs {
		eq := true
		for j := 0; j < 16; j++ {
			eq = rt.And(eq, src[j] == rec.out[j])
		}
		if eq {
			for j := 0; j < 16; j++ {
				dst[j] = rec.in[j]
			}
			return
		}
	}
	fresh := rt.Bytes("pt", 16)
	copy(dst, fresh)
}

// c18NewCipher replaces crypto/aes.NewCipher: key sizes as documented, one ideal cipher per run.
func c18NewCipher(key []byte) (cipher.Block, error) {
	switch len(key) {
	case 16, 24, 32:
	default:
		return nil, ErrPaddingSize // any non-nil error
	}
	if c18Cipher == nil {
		c18Cipher = &c18Ideal{}
	}
	return c18Cipher, nil
}

//verif:stub crypto/aes.NewCipher c18NewCipher

//verif:entry tier=quick,thorough steps=4000000 cover=roundtrip,blockboundary,badkey
//verif:doc EcbEncrypt then EcbDecrypt under an ideal block cipher: payloads of every length 1..33 (quick: 1..18, 31..33) with arbitrary bytes round-trip exactly; the ciphertext is a whole number of blocks, strictly longer than the payload by 1..16 bytes; a key of an unsupported length is an error on both sides.
func Verif_C18_EcbRoundTrip() {
	c18Cipher = nil
	var n int
	if rt.Tier() > 0 {
		n = 1 + rt.Choose("len", 33)
	} else {
		n = []int{1, 2, 15, 16, 17, 18, 31, 32, 33}[rt.Choose("len", 9)]
	}
	key := make([]byte, 16)
	if rt.Choose("badkey", 2) == 1 {
		rt.Cover("badkey")
		_, err := EcbEncrypt(key[:15], []byte{1})
		_, err2 := EcbDecrypt(key[:15], make([]byte, 16))
		rt.Assert(err != nil && err2 != nil, "a key of unsupported length is reported as an error")
		return
	}
	payload := rt.Bytes("p", n)
	orig := make([]byte, n)
	copy(orig, payload)
	ct, err := EcbEncrypt(key, payload)
	rt.Assert(err == nil, "encryption with a valid key succeeds")
	rt.Assert(len(ct)%16 == 0 && len(ct) > n && len(ct) <= n+16, "the ciphertext is a whole number of blocks, 1..16 bytes longer than the payload")
	if n%16 == 0 {
		rt.Cover("blockboundary")
	}
	pt, err := EcbDecrypt(key, ct)
	rt.Assert(err == nil, "decrypting what was encrypted succeeds")
	rt.Assert(len(pt) == n, "the decrypted payload has the original length")
	for i := 0; i < n && i < len(pt); i++ {
		rt.Assert(pt[i] == orig[i], "the decrypted payload equals the original payload byte for byte")
	}
	rt.Cover("roundtrip")
}

//verif:entry tier=quick,thorough steps=4000000 cover=ok,rejected
//verif:doc pkcs5Unpadding on an arbitrary final byte: for block-aligned inputs of 16 or 32 arbitrary bytes it either rejects (ErrPaddingSize) or strips exactly the number of bytes named by the last byte, which is then in 1..16 (never 0 - which would return the input unchanged - and never more than a block), and never panics.
func Verif_C18_Unpadding() {
	n := 16 * (1 + rt.Choose("blocks", 2))
	src := rt.Bytes("b", n)
	last := src[n-1]
	out, err := pkcs5Unpadding(src, 16)
	if err != nil {
		rt.Cover("rejected")
		rt.Assert(err == ErrPaddingSize, "bad padding is reported as ErrPaddingSize")
		rt.Assert(int(last) >= n || int(last) > 16, "padding is rejected only when the pad length exceeds the block size or the input")
		return
	}
	rt.Cover("ok")
	rt.Assert(len(out) == n-int(last), "exactly the number of bytes named by the final byte is stripped")
	rt.Assert(int(last) <= 16, "an accepted pad length never exceeds the block size")
}
