//verif:pkg rest/internal/security
package security

// C18 — VerifySignature (DESIGN §4 C18.2): the real time-window arithmetic over every int64
// timestamp (wrap-around included), the five signed fields and the comparison with the HMAC.
// HMAC-SHA256/base64 and the SHA-256 body digest are ideal (uninterpreted) functions; decimal parsing
// of the timestamp is replaced by its contract (an arbitrary int64 or an error).

import (
	"bytes"
	"errors"
	"hash"
	"io"
	"net/http"
	"net/url"
	"time"

	rt "github.com/zeromicro/go-zero/internal/verifrt"
	"github.com/zeromicro/go-zero/rest/httpx"
)

var c18 struct {
	ts      int64
	tsErr   bool
	mac     string
	digest  string
	joined  []string
	macBody string
	macRuns int
}

var c18ErrSyntax = errors.New("c18: invalid syntax")

func c18ParseInt(s string, base int, bitSize int) (int64, error) {
	rt.Assert(base == 10 && bitSize == 64, "the timestamp is parsed as a decimal int64")
	if c18.tsErr {
		return 0, c18ErrSyntax
	}
	return c18.ts, nil
}

func c18Join(elems []string, sep string) string {
	c18.joined = append([]string{}, elems...)
	rt.Assert(sep == "\n", "the signed fields are joined by newlines")
	return "c18-sign-content"
}

func c18Hmac(key []byte, body string) string {
	c18.macRuns++
	c18.macBody = body
	return c18.mac
}

func c18BodySig(r *http.Request) string { return c18.digest }

//verif:stub strconv.ParseInt c18ParseInt
//verif:stub strings.Join c18Join
//verif:stub github.com/zeromicro/go-zero/core/codec.HmacBase64 c18Hmac

//verif:entry tier=quick,thorough steps=2000000 cover=pass,wrongtime,badheader,badtoken,wraphigh,wraplow
//verif:stub github.com/zeromicro/go-zero/rest/internal/security.computeBodySignature c18BodySig
//verif:doc VerifySignature with the timestamp any int64 (or unparsable), now in {0, 1.7e9, 2^33} s, tolerance in {0, 1, 300, 2^31} whole seconds, method/path/query/timestamp/signature/body digest as atoms: invalid-header iff the timestamp does not parse; otherwise wrong-time iff |timestamp - now| > tolerance as mathematical integers (no wrap-around admits a far-away timestamp); otherwise pass iff the presented signature equals the HMAC, which is computed over exactly (timestamp, method, path, raw query, body digest) joined by newlines under the header's key.
func Verif_C18_VerifySignature() {
	c18.joined, c18.macRuns = nil, 0
	c18.ts = rt.Int64("ts")
	c18.tsErr = rt.Bool("tsErr")
	c18.mac = rt.Atom("mac")
	c18.digest = rt.Atom("digest")
	now := []int64{0, 1700000000, 1 << 33}[rt.Choose("now", 3)]
	rt.SetNow(now * 1e9)
	tol := []int64{0, 1, 300, 1 << 31}[rt.Choose("tol", 4)]
	method, path, query := rt.Atom("method"), rt.Atom("path"), rt.Atom("query")
	tsText, sig := rt.Atom("tsText"), rt.Atom("sig")
	r := &http.Request{Method: method, URL: &url.URL{Path: path, RawQuery: query}, Header: http.Header{}}
	h := &ContentSecurityHeader{Key: []byte("k"), Timestamp: tsText, Signature: sig}
	code := VerifySignature(r, h, time.Duration(tol)*time.Second)
	inWindow := rt.And(c18.ts <= now+tol, c18.ts >= now-tol)
	switch {
	case c18.tsErr:
		rt.Cover("badheader")
		rt.Assert(code == httpx.CodeSignatureInvalidHeader, "an unparsable timestamp is an invalid header")
	case code == httpx.CodeSignatureWrongTime:
		rt.Cover("wrongtime")
		rt.Assert(!inWindow, "wrong-time is reported only for a timestamp further than the tolerance from now")
		rt.CoverIf(c18.ts > (1<<62), "wraphigh")
		rt.CoverIf(c18.ts < -(1<<62), "wraplow")
	default:
		rt.Assert(inWindow, "a timestamp outside the tolerance window never gets past the time check (no integer wrap-around)")
		rt.Assert(code == httpx.CodeSignaturePass || code == httpx.CodeSignatureInvalidToken, "inside the window the verdict is pass or invalid token")
		rt.Assert(c18.macRuns == 1 && c18.macBody == "c18-sign-content", "the HMAC is computed once over the joined fields")
		ok := len(c18.joined) == 5
		if ok {
			ok = c18.joined[0] == tsText && c18.joined[1] == method && c18.joined[2] == path && c18.joined[3] == query && c18.joined[4] == c18.digest
		}
		rt.Assert(ok, "the signature covers exactly the timestamp, method, path, raw query and body digest, in this order")
		if code == httpx.CodeSignaturePass {
			rt.Cover("pass")
			rt.Assert(sig == c18.mac, "pass only when the presented signature equals the HMAC")
		} else {
			rt.Cover("badtoken")
			rt.Assert(sig != c18.mac, "a signature equal to the HMAC passes")
		}
	}
}

// ---------- body digest: SHA-256 replaced by a recording hash

type c18Hash struct{ fed []byte }

func (h *c18Hash) Write(p []byte) (int, error) { h.fed = append(h.fed, p...); return len(p), nil }
func (h *c18Hash) Sum(b []byte) []byte         { return append(b, 0xD1, 0x6E) }
func (h *c18Hash) Reset()                      { h.fed = nil }
func (h *c18Hash) Size() int                   { return 2 }
func (h *c18Hash) BlockSize() int              { return 64 }

var c18LastHash *c18Hash

func c18NewHash() hash.Hash {
	c18LastHash = &c18Hash{}
	return c18LastHash
}

//verif:entry tier=quick,thorough steps=2000000 cover=known,chunked,empty
//verif:stub crypto/sha256.New c18NewHash
//verif:doc computeBodySignature with SHA-256 replaced by a recording hash: for a body of 0..3 arbitrary bytes, with the declared Content-Length equal to the body length or unknown (-1, chunked transfer), exactly the body's bytes are digested, in order, and the same bytes are still readable from r.Body afterwards.
func Verif_C18_BodyDigest() {
	n := rt.Choose("len", 4)
	body := rt.Bytes("body", n)
	cl := int64(n)
	if rt.Choose("chunked", 2) == 1 {
		cl = -1
		rt.Cover("chunked")
	} else {
		rt.Cover("known")
	}
	if n == 0 {
		rt.Cover("empty")
	}
	r := &http.Request{Method: "POST", Header: http.Header{}, ContentLength: cl, Body: io.NopCloser(bytes.NewReader(append([]byte{}, body...)))}
	c18LastHash = nil
	computeBodySignature(r)
	rt.Assert(c18LastHash != nil && len(c18LastHash.fed) == n, "the digest covers the whole body, whatever Content-Length says")
	for i := 0; c18LastHash != nil && i < n && i < len(c18LastHash.fed); i++ {
		rt.Assert(c18LastHash.fed[i] == body[i], "the digest is computed over the body's bytes in order")
	}
	rest, err := io.ReadAll(r.Body)
	rt.Assert(err == nil && len(rest) == n, "the body is still fully readable by the handler after the digest was taken")
	for i := 0; i < n && i < len(rest); i++ {
		rt.Assert(rest[i] == body[i], "the handler reads the same bytes that were digested")
	}
}
