//verif:pkg core/executors
package executors

// C11 — PeriodicalExecutor / BulkExecutor / ChunkExecutor (DESIGN §4 C11): the real Add /
// addAndCheck / backgroundFlush / Flush / Wait / executeTasks / hasTasks / shallQuit with the real
// bulkContainer / chunkContainer, producers, the background flusher, a Flush/Wait caller and the
// flush ticker + clock as goroutines under the engine scheduler.

import (
	"time"

	"github.com/zeromicro/go-zero/core/timex"
	rt "github.com/zeromicro/go-zero/internal/verifrt"
)

const c11Interval = time.Second

type c11Ticker struct {
	ch      chan time.Time
	stopped bool
}

func (t *c11Ticker) Chan() <-chan time.Time { return t.ch }
func (t *c11Ticker) Stop()                  { t.stopped = true }

// c11Spy forwards to the real container and records who took each task out of it: the Add of the
// caller, the Add of the concurrent producer (threshold reached) or a Flush.
type c11Spy struct {
	inner   TaskContainer
	w       *c11World
	pending int // owner of the Add whose AddTask just reported "full" (under pe.lock), 0 none
}

const (
	c11ByFlush    = 3
	c11ByCaller   = 1
	c11ByProducer = 2
)

func c11Owner(id int) int {
	if id >= 10 {
		return c11ByProducer
	}
	return c11ByCaller
}

func (s *c11Spy) AddTask(task any) bool {
	full := s.inner.AddTask(task)
	s.pending = 0
	if full {
		s.pending = c11Owner(s.w.taskID(task))
	}
	return full
}

func (s *c11Spy) Execute(tasks any) { s.inner.Execute(tasks) }

func (s *c11Spy) RemoveAll() any {
	v := s.inner.RemoveAll()
	by := c11ByFlush
	if s.pending != 0 {
		by = s.pending
	}
	s.pending = 0
	if ts, ok := v.([]any); ok {
		for _, t := range ts {
			s.w.removedBy[s.w.taskID(t)] = by
		}
	}
	return v
}

type c11World struct {
	removedBy map[int]int
	lost      map[int]bool
	attempts  map[int]int // callback entered with this task
	finished  map[int]int // callback returned normally with this task
	panicTask int         // a batch containing this task makes the callback panic (-1: none)
	tickers   []*c11Ticker
	batches   int
}

func c11NewWorld() *c11World {
	return &c11World{attempts: map[int]int{}, finished: map[int]int{}, removedBy: map[int]int{}, lost: map[int]bool{}, panicTask: -1}
}

func (w *c11World) execute(tasks []any) {
	w.batches++
	rt.Assert(len(tasks) > 0, "the execute callback is never invoked with an empty batch")
	boom := false
	for _, t := range tasks {
		id := w.taskID(t)
		w.attempts[id]++
		rt.Assert(w.attempts[id] == 1, "no task is passed to the execute callback twice")
		if id == w.panicTask {
			boom = true
		}
	}
	rt.Yield()
	if boom {
		rt.Cover("callbackpanic")
		for _, t := range tasks {
			w.lost[w.taskID(t)] = true // a panicking callback loses its own batch, nothing else
		}
		panic("c11: execute callback panicked")
	}
	for _, t := range tasks {
		w.finished[w.taskID(t)]++
	}
}

func (w *c11World) taskID(t any) int {
	switch v := t.(type) {
	case int:
		return v
	case chunk:
		return v.val.(int)
	}
	panic("c11: unexpected task type")
}

func (w *c11World) newTicker(d time.Duration) timex.Ticker {
	rt.Assert(d == c11Interval, "the flush ticker runs at the configured interval")
	t := &c11Ticker{ch: make(chan time.Time, 1)}
	w.tickers = append(w.tickers, t)
	return t
}

// clock: the environment. Up to `ticks` times it advances the virtual clock by one interval or by
// more than idleRound intervals and delivers a tick to the live ticker (dropped when the buffer of
// 1 is full, as time.Ticker does).
func (w *c11World) clock(ticks int) {
	for i := 0; i < ticks; i++ {
		rt.Yield()
		if rt.Choose("longJump", 2) == 1 {
			rt.Advance(int64(c11Interval) * (idleRound + 1))
			rt.Cover("idlejump")
		} else {
			rt.Advance(int64(c11Interval))
		}
		if n := len(w.tickers); n > 0 && !w.tickers[n-1].stopped {
			select {
			case w.tickers[n-1].ch <- time.Time{}:
			default:
			}
		}
	}
}

func (w *c11World) checkAll(ids []int, what string) {
	for _, id := range ids {
		if w.lost[id] {
			rt.Assert(w.attempts[id] == 1, "a task of the panicking batch was handed to the callback exactly once")
			continue
		}
		rt.Assert(w.attempts[id] == 1 && w.finished[id] == 1, what)
	}
}

// c11Run drives one PeriodicalExecutor over the given container.
func c11Run(w *c11World, pe *PeriodicalExecutor, add func(id int), mine, theirs, ticks int, flushFirst bool) {
	pe.newTicker = w.newTicker
	var mineIDs, theirIDs []int
	for i := 0; i < mine; i++ {
		mineIDs = append(mineIDs, i)
	}
	for i := 0; i < theirs; i++ {
		theirIDs = append(theirIDs, 10+i)
	}
	producerDone := make(chan struct{})
	go func() {
		for _, id := range theirIDs {
			add(id)
		}
		close(producerDone)
	}()
	clockDone := make(chan struct{})
	go func() {
		w.clock(ticks)
		close(clockDone)
	}()
	for _, id := range mineIDs {
		add(id)
	}
	if flushFirst {
		pe.Flush()
		rt.Cover("flush")
	}
	pe.Wait()
	rt.Cover("wait")
	for _, id := range mineIDs {
		if w.attempts[id] == 0 && w.removedBy[id] == c11ByProducer {
			// the caller's task sits in a batch that the concurrent producer's Add took out of the container
			// (threshold reached) and has not yet handed to the flusher: Wait does not see it
			rt.Assert(false, "Wait returned while a batch that a concurrent producer's Add had removed from the container (threshold reached, hand-over to the flusher still pending) was not executed yet; it contains a task the caller added before Wait")
		}
	}
	w.checkAll(mineIDs, "Wait returns only after the callbacks for all tasks added before it have returned, each task executed exactly once")
	<-producerDone
	<-clockDone
	pe.Wait()
	w.checkAll(mineIDs, "every accepted task is executed exactly once")
	w.checkAll(theirIDs, "every accepted task is executed exactly once (tasks of the concurrent producer, after a final Wait)")
	for id, n := range w.attempts {
		_ = id
		rt.Assert(n == 1, "no task is executed twice")
	}
	if len(w.tickers) > 1 {
		rt.Cover("restarted")
	}
}

func c11Config() (threshold, mine, theirs, ticks int, panics int, flushFirst bool) {
	threshold = 1 + rt.Choose("threshold", 2)
	if rt.Tier() == 0 {
		// quick: 2 own tasks, 1 concurrent task; either no tick (with/without Flush first, with/without a
		// panicking batch) or one tick (short or long jump)
		mine, theirs = 2, 1
		ticks = rt.Choose("ticks", 3)
		if ticks == 0 {
			flushFirst = rt.Choose("flushFirst", 2) == 1
			panics = rt.Choose("panics", 2)
		}
		if ticks == 2 {
			// two ticks: one own and one concurrent task, both at the threshold (two batches in flight
			// while the flusher may go idle)
			if threshold != 1 {
				rt.Assume(false)
			}
			mine = 1
		}
		return
	}
	// thorough: a curated set of configurations (the full product of all dimensions is ~400
	// configurations x ~5*10^4 schedules each, beyond any budget)
	cfgs := []struct {
		mine, theirs, ticks, panics int
		flush                       bool
	}{
		{2, 1, 0, 0, false}, {2, 1, 0, 0, true}, {2, 1, 0, 1, false}, {2, 1, 0, 2, false},
		{0, 1, 1, 0, false}, {1, 1, 1, 0, false}, {1, 2, 0, 0, false}, {1, 2, 1, 0, true},
		{2, 1, 1, 0, false}, {2, 1, 1, 1, false}, {1, 1, 2, 0, false}, {2, 2, 0, 0, false},
	}
	c := cfgs[rt.Choose("config", len(cfgs))]
	mine, theirs, ticks, panics, flushFirst = c.mine, c.theirs, c.ticks, c.panics, c.flush
	if ticks == 2 && threshold != 1 {
		rt.Assume(false)
	}
	return
}

//verif:entry tier=quick,thorough steps=4000000 preempt=1 allowdeadlock cover=wait,flush,idlejump,callbackpanic
//verif:doc PeriodicalExecutor over the real bulkContainer (BulkExecutor): threshold 1..2, the caller adds 2 tasks (thorough: a curated set of 12 configurations with 0..2 own and 1..2 concurrent tasks) then (optionally Flush and) Wait, a concurrent producer adds 1 task, the clock goroutine delivers 0..2 ticks (quick: 2 ticks only with threshold 1 and one own task) advancing the virtual clock by one interval or by more than idleRound intervals (so the background flusher may quit and be restarted by a later Add); optionally one task makes the execute callback panic. Every task is handed to the callback exactly once, Wait returns only after the callbacks of everything added before it have returned, a panicking callback loses only its batch. Schedules with at most 1 preemption.
func Verif_C11_Bulk() {
	w := c11NewWorld()
	threshold, mine, theirs, ticks, panics, flushFirst := c11Config()
	c := &c11Spy{inner: &bulkContainer{execute: w.execute, maxTasks: threshold}, w: w}
	pe := NewPeriodicalExecutor(c11Interval, c)
	if panics == 1 && mine > 0 {
		w.panicTask = 0
	} else if panics == 2 {
		w.panicTask = 10
	}
	c11Run(w, pe, func(id int) { pe.Add(id) }, mine, theirs, ticks, flushFirst)
}

//verif:entry tier=thorough steps=4000000 preempt=2 allowdeadlock cover=wait
//verif:doc PeriodicalExecutor over the real bulkContainer, schedules with at most 2 preemptions: threshold 1..2, 2 own tasks + 1 concurrent task, no tick, Wait.
func Verif_C11_BulkDeep() {
	w := c11NewWorld()
	threshold := 1 + rt.Choose("threshold", 2)
	c := &c11Spy{inner: &bulkContainer{execute: w.execute, maxTasks: threshold}, w: w}
	pe := NewPeriodicalExecutor(c11Interval, c)
	c11Run(w, pe, func(id int) { pe.Add(id) }, 2, 1, 0, false)
}

//verif:entry tier=quick,thorough steps=4000000 preempt=1 allowdeadlock cover=wait
//verif:doc PeriodicalExecutor over the real chunkContainer (ChunkExecutor): chunk-size threshold 2 with task sizes 0..2 for the first two Adds (symbolic choice; a size-0 chunk never moves the byte counter but must still be executed), 2 own tasks + 1 concurrent task, no tick (thorough 0..1 ticks); same assertions. Schedules with at most 1 preemption.
func Verif_C11_Chunk() {
	w := c11NewWorld()
	c := &c11Spy{inner: &chunkContainer{execute: w.execute, maxChunkSize: 2}, w: w}
	pe := NewPeriodicalExecutor(c11Interval, c)
	sizes := []int{rt.Choose("size", 3), rt.Choose("size", 3), 1}
	k := 0
	add := func(id int) {
		sz := sizes[k%3]
		k++
		pe.Add(chunk{val: id, size: sz})
	}
	ticks := 0
	if rt.Tier() > 0 {
		ticks = rt.Choose("ticks", 2)
	}
	c11Run(w, pe, add, 2, 1, ticks, false)
}

//verif:entry tier=quick,thorough steps=4000000 preempt=2 allowdeadlock cover=wait
//verif:doc PeriodicalExecutor, periodic flush against Wait, schedules with at most 2 preemptions: threshold 2, the caller adds one task (which stays in the container), the clock delivers one tick at an arbitrary point, the caller Waits: when Wait returns the task has been executed, whether the tick's Flush or Wait's own Flush took it out of the container.
func Verif_C11_TickFlushVsWait() {
	w := c11NewWorld()
	c := &c11Spy{inner: &bulkContainer{execute: w.execute, maxTasks: 2}, w: w}
	pe := NewPeriodicalExecutor(c11Interval, c)
	c11Run(w, pe, func(id int) { pe.Add(id) }, 1, 0, 1, false)
}
