//verif:pkg core/mapping
package mapping

// C08 — the reflection-driven traversal of the unmarshaller (UnmarshalKey / Unmarshaler.Unmarshal ->
// unmarshalWithFullName -> processField* -> validators / fill*) executed on the engine's reflect
// model over fixed struct types with symbolic inputs (DESIGN 10.2, §4 C08).

import (
	"encoding/json"
	"strconv"

	rt "github.com/zeromicro/go-zero/internal/verifrt"
)

// c08Num supplies one numeric input in one of the forms the front-ends produce: a native Go number of
// the field's kind (configuration maps, symbolic), a json.Number (JSON bodies; concrete numerals),
// a value of another kind (type mismatch) or nil.
type c08Num struct {
	val     any
	isInt   bool
	n       int64   // the number, when it is an integer
	f       float64 // the number, when it is a float (may be symbolic / NaN)
	isFloat bool
	bad     bool // wrong kind or nil: must be rejected
}

func c08IntInput(name string, lo, hi int64) c08Num {
	switch rt.Choose(name+"Form", 5) {
	case 0:
		n := rt.Int(name, lo, hi)
		return c08Num{val: int(n), isInt: true, n: n}
	case 1:
		k := []int64{0, 1, 5, 6, 10, -1}[rt.Choose(name+"Json", 6)]
		return c08Num{val: json.Number(strconv.FormatInt(k, 10)), isInt: true, n: k}
	case 2:
		return c08Num{val: "3", bad: true} // a string for a numeric field
	case 3:
		return c08Num{val: 2.5, bad: true} // a float for an integer field
	}
	return c08Num{val: nil, bad: true}
}

func c08FloatInput(name string) c08Num {
	switch rt.Choose(name+"Form", 4) {
	case 0:
		f := rt.FloatAny(name)
		return c08Num{val: f, isFloat: true, f: f}
	case 1:
		k := []string{"0", "0.5", "1", "1.5", "-0.5"}[rt.Choose(name+"Json", 5)]
		f, _ := strconv.ParseFloat(k, 64)
		return c08Num{val: json.Number(k), isFloat: true, f: f}
	case 2:
		return c08Num{val: "0.5", bad: true}
	}
	return c08Num{val: nil, bad: true}
}

type c08Ranges struct {
	A int     `json:"a,range=[1:5]"`
	C float64 `json:"c,optional,range=(0:1]"`
	F *int    `json:"f,optional,range=[0:10)"`
	U uint8   `json:"u,default=4,range=(2:6)"`
}

//verif:entry native tier=quick,thorough steps=4000000 maporder=first cover=accepted,rejected,missing,outofrange,nan,jsonnumber,mismatch,default,pointer
//verif:doc Unmarshaler("json").Unmarshal into struct{A int range=[1:5]; C float64 optional range=(0:1]; F *int optional range=[0:10); U uint8 default=4 range=(2:6)} through the real reflection-driven traversal: every key present or absent; numbers supplied as native Go numbers of the field's kind (symbolic: every int in +-2^40, every float64 incl. NaN/inf), as json.Number numerals, as a value of the wrong kind, or nil. Accepted iff every required field is supplied and every supplied number lies inside its declared range (open/closed ends respected); on success the target holds exactly the supplied values, defaults for absent fields, nil for an absent optional pointer; never a panic.
func Verif_C08_StructRanges() {
	m := map[string]any{}
	ok := true
	var a, f, u c08Num
	var c c08Num
	hasA, hasC, hasF, hasU := rt.Bool("hasA"), rt.Bool("hasC"), rt.Bool("hasF"), rt.Bool("hasU")
	if hasA {
		a = c08IntInput("a", -(1 << 40), 1<<40)
		m["a"] = a.val
		ok = ok && !a.bad && a.n >= 1 && a.n <= 5
	} else {
		rt.Cover("missing")
		ok = false // required
	}
	if hasC {
		c = c08FloatInput("c")
		m["c"] = c.val
		if c.val == nil {
			// a nil value for an optional field is skipped
		} else {
			ok = ok && !c.bad && c.f > 0 && c.f <= 1
			if c.isFloat && c.f != c.f {
				rt.Cover("nan")
			}
		}
	}
	if hasF {
		f = c08IntInput("f", -20, 20)
		m["f"] = f.val
		if f.val != nil {
			ok = ok && !f.bad && f.n >= 0 && f.n < 10
		}
	}
	if hasU {
		switch rt.Choose("uForm", 3) {
		case 0:
			n := rt.Int("u", 0, 255)
			u = c08Num{val: uint8(n), isInt: true, n: n}
		case 1:
			k := []int64{2, 3, 5, 6}[rt.Choose("uJson", 4)]
			u = c08Num{val: json.Number(strconv.FormatInt(k, 10)), isInt: true, n: k}
		default:
			u = c08Num{val: 3, bad: true} // an int for a uint8 field
		}
		m["u"] = u.val
		ok = ok && !u.bad && u.n > 2 && u.n < 6
	}
	var t c08Ranges
	err := NewUnmarshaler("json").Unmarshal(m, &t)
	if !ok {
		rt.Cover("rejected")
		if (hasA && !a.bad && (a.n < 1 || a.n > 5)) || (hasF && f.val != nil && !f.bad && (f.n < 0 || f.n >= 10)) {
			rt.Cover("outofrange")
		}
		if (hasA && a.bad) || (hasC && c.bad && c.val != nil) {
			rt.Cover("mismatch")
		}
		rt.Assert(err != nil, "input with a missing required field, a number outside its declared range or a value of the wrong kind is rejected")
		return
	}
	rt.Cover("accepted")
	rt.Assert(err == nil, "input meeting all declared constraints with correctly typed values is accepted")
	rt.Assert(int64(t.A) == a.n, "the target holds the supplied value (A)")
	if _, isJ := a.val.(json.Number); isJ {
		rt.Cover("jsonnumber")
	}
	if hasC && c.val != nil {
		rt.Assert(t.C == c.f, "the target holds the supplied value (C)")
	} else {
		rt.Assert(t.C == 0, "an absent optional field stays zero (C)")
	}
	if hasF && f.val != nil {
		rt.Cover("pointer")
		rt.Assert(t.F != nil && int64(*t.F) == f.n, "the target holds the supplied value behind the pointer (F)")
	} else {
		rt.Assert(t.F == nil, "an absent optional pointer field stays nil (F)")
	}
	if hasU {
		rt.Assert(int64(t.U) == u.n, "the target holds the supplied value (U)")
	} else {
		rt.Cover("default")
		rt.Assert(t.U == 4, "an absent field with a default holds the default (U)")
	}
}

type c08Opts struct {
	B string `json:"b,options=x|y"`
	E string `json:"e,optional=b"`
	N string `json:"n,optional=!b"`
	D int    `json:"d,default=3,options=3|4|9,range=[1:5]"`
	S string `json:"s,default=y,options=[x,y]"`
}

//verif:entry native tier=quick,thorough steps=4000000 maporder=first cover=accepted,rejected,badoption,depboth,depmixed,notdep,default
//verif:doc Unmarshaler("json").Unmarshal into struct{B string options=x|y; E string optional=b; N string optional=!b; D int default=3 options=3|4|9 range=[1:5]; S string default=y options=[x,y]}: every key present or absent, strings as atoms (equal to an option or not: solver-chosen), D as native int or json.Number from {2,3,4,9} (2 is inside the range but no option, 9 an option outside the range: both constraints must hold): accepted iff B is supplied and is one of its options, E is supplied exactly when B is, N exactly when B is not, and every supplied D/S is one of its options and D inside its range; then the target holds the supplied values and the defaults for absent fields.
func Verif_C08_StructOptions() {
	m := map[string]any{}
	hasB, hasE, hasN, hasD, hasS := rt.Bool("hasB"), rt.Bool("hasE"), rt.Bool("hasN"), rt.Bool("hasD"), rt.Bool("hasS")
	b, e, n, sv := rt.Atom("b"), rt.Atom("e"), rt.Atom("n"), rt.Atom("s")
	var d int64
	ok := true
	if hasB {
		m["b"] = b
		ok = ok && (b == "x" || b == "y")
	} else {
		ok = false
	}
	if hasE {
		m["e"] = e
	}
	if hasN {
		m["n"] = n
	}
	ok = ok && hasE == hasB && hasN != hasB
	if hasD {
		d = []int64{2, 3, 4, 9}[rt.Choose("d", 4)] // 2: inside the range, not an option; 9: an option, outside the range
		if rt.Choose("dForm", 2) == 1 {
			m["d"] = json.Number(strconv.FormatInt(d, 10))
		} else {
			m["d"] = int(d)
		}
		ok = ok && (d == 3 || d == 4)
	}
	if hasS {
		m["s"] = sv
		ok = ok && (sv == "x" || sv == "y")
	}
	var t c08Opts
	err := NewUnmarshaler("json").Unmarshal(m, &t)
	if !ok {
		rt.Cover("rejected")
		rt.CoverIf(hasB && !(b == "x" || b == "y"), "badoption")
		rt.CoverIf(hasB && !hasE, "depmixed")
		rt.CoverIf(hasB && hasN, "notdep")
		rt.Assert(err != nil, "a missing required field, a value outside the declared options, or a violated optional-dependency is rejected")
		return
	}
	rt.Cover("accepted")
	rt.Cover("depboth")
	rt.Assert(err == nil, "input meeting all declared constraints is accepted")
	rt.Assert(t.B == b && t.E == e && t.N == "", "the target holds exactly the supplied strings")
	if hasD {
		rt.Assert(int64(t.D) == d, "the target holds the supplied value (D)")
	} else {
		rt.Cover("default")
		rt.Assert(t.D == 3, "an absent field holds its default (D)")
	}
	if hasS {
		rt.Assert(t.S == sv, "the target holds the supplied value (S)")
	} else {
		rt.Assert(t.S == "y", "an absent field holds its default (S)")
	}
}

type c08FromString struct {
	L int     `json:"l,string,options=1|2"`
	R int64   `json:"r,string,range=[1:5]"`
	P *int    `json:"p,string,optional,options=1|2"`
	X float64 `json:"x,string,optional,range=[0:1)"`
}

// c08StrInput: a number written as a Go string (form/path/header parameters, quoted JSON) or as an
// unquoted literal (json.Number), or a native number (not allowed for a `string` field).
func c08StrInput(name string, numerals []string, vary bool) (val any, text string, wrongKind bool) {
	if !vary {
		return numerals[0], numerals[0], false // the first numeral of every set is valid
	}
	text = numerals[rt.Choose(name, len(numerals))]
	switch rt.Choose(name+"Form", 3) {
	case 0:
		return text, text, false
	case 1:
		return json.Number(text), text, false
	}
	return 1, text, true
}

//verif:entry native tier=quick,thorough steps=4000000 maporder=first cover=accepted,rejected,jsonnumber,notoption,outofrange,garbage,wrongkind,pointer
//verif:doc Unmarshaler("json").Unmarshal into struct{L int string options=1|2; R int64 string range=[1:5]; P *int string optional options=1|2; X float64 string optional range=[0:1)}: values written as Go strings or as json.Number literals from small numeral sets (inside/outside the options and ranges, non-numeric text, NaN), or as native numbers (wrong kind for a `string` field): accepted iff L and R are supplied, every supplied value is textual and parses, L and P are among their options and R, X inside their ranges; the target then holds the parsed numbers.
func Verif_C08_StructFromString() {
	m := map[string]any{}
	ok := true
	// quick: one field is varied at a time (the others hold a valid value); thorough: all at once
	focus := -1
	if rt.Tier() == 0 {
		focus = rt.Choose("focus", 4)
	}
	lv, lt, lw := c08StrInput("l", []string{"1", "2", "7", "abc"}, focus < 0 || focus == 0)
	m["l"] = lv
	ok = ok && !lw && (lt == "1" || lt == "2")
	rv, rtxt, rw := c08StrInput("r", []string{"1", "5", "6", "0", "x1"}, focus < 0 || focus == 1)
	hasR := focus >= 0 && focus != 1 || rt.Bool("hasR")
	if hasR {
		m["r"] = rv
		ok = ok && !rw && (rtxt == "1" || rtxt == "5")
	} else {
		ok = false
	}
	hasP := (focus < 0 || focus == 2) && rt.Bool("hasP")
	hasX := (focus < 0 || focus == 3) && rt.Bool("hasX")
	pv, pt, pw := c08StrInput("p", []string{"2", "3"}, true)
	if hasP {
		m["p"] = pv
		ok = ok && !pw && pt == "2"
	}
	xv, xt, xw := c08StrInput("x", []string{"0", "0.5", "1", "NaN", "-0.1"}, true)
	if hasX {
		m["x"] = xv
		ok = ok && !xw && (xt == "0" || xt == "0.5")
	}
	var t c08FromString
	err := NewUnmarshaler("json").Unmarshal(m, &t)
	if _, isJ := lv.(json.Number); isJ {
		rt.Cover("jsonnumber")
	}
	if !ok {
		rt.Cover("rejected")
		rt.CoverIf(!lw && lt == "7", "notoption")
		rt.CoverIf(hasR && !rw && rtxt == "6", "outofrange")
		rt.CoverIf(!lw && lt == "abc", "garbage")
		rt.CoverIf(lw, "wrongkind")
		rt.Assert(err != nil, "a value outside its options or range, unparsable text, a native number for a `string` field or a missing required field is rejected, whether written as a string or as a number literal")
		return
	}
	rt.Cover("accepted")
	rt.Assert(err == nil, "input meeting all declared constraints is accepted")
	wantL, _ := strconv.Atoi(lt)
	wantR, _ := strconv.ParseInt(rtxt, 10, 64)
	rt.Assert(t.L == wantL && t.R == wantR, "the target holds the parsed numbers")
	if hasP {
		rt.Cover("pointer")
		rt.Assert(t.P != nil && *t.P == 2, "the target holds the parsed number behind the pointer")
	} else {
		rt.Assert(t.P == nil, "an absent optional pointer stays nil")
	}
	if hasX {
		wantX, _ := strconv.ParseFloat(xt, 64)
		rt.Assert(t.X == wantX, "the target holds the parsed float")
	}
}

type c08Inner struct {
	V int    `json:"v,range=[0:9]"`
	W string `json:"w,optional"`
}

// c08Lim: every member is optional or defaulted (one of them through optional=<sibling>), so the struct
// as a whole need not be supplied
type c08Lim struct {
	A int `json:"a,optional"`
	B int `json:"b,optional=a"`
	C int `json:"c,default=5"`
}

type c08Outer struct {
	In   c08Inner       `json:"in"`
	Ptr  *c08Inner      `json:"ptr,optional"`
	List []int          `json:"list,optional"`
	M    map[string]int `json:"m,optional"`
	Req  *int           `json:"req,range=[0:9]"`
	MS   map[string][]int `json:"ms,optional"`
	Lim  c08Lim           `json:"lim"`
}

//verif:entry tier=quick,thorough native steps=4000000 maporder=first cover=accepted,rejected,nestedmissing,nestedrange,pointer,slice,mapfield,requiredpointer,nullelement,alloptionalabsent
//verif:doc Unmarshaler("json").Unmarshal into struct{In Inner; Ptr *Inner optional; List []int optional; M map[string]int optional; Req *int range=[0:9] (required); MS map[string][]int optional (element a list, an empty list or null); Lim struct{A optional; B optional=a; C default=5} (absent, empty or filled)} with Inner{V int range=[0:9]; W string optional}: nested maps present or absent, V symbolic in +-2^20 (or missing), list of 0..2 symbolic ints, map of 0..1 entries: accepted iff the required nested struct and its required field are supplied and every supplied V lies in its range; the target then mirrors the input exactly (nested values, pointer allocated only when supplied, slice and map contents).
func Verif_C08_StructNested() {
	m := map[string]any{}
	ok := true
	hasIn, hasPtr, hasList, hasM := rt.Bool("hasIn"), rt.Bool("hasPtr"), rt.Bool("hasList"), rt.Bool("hasM")
	inV, ptrV := rt.Int("inV", -(1 << 20), 1<<20), rt.Int("ptrV", -(1 << 20), 1<<20)
	inHasV, ptrHasV := rt.Bool("inHasV"), rt.Bool("ptrHasV")
	w := rt.Atom("w")
	if hasIn {
		in := map[string]any{"w": w}
		if inHasV {
			in["v"] = int(inV)
		}
		m["in"] = in
		ok = ok && inHasV && inV >= 0 && inV <= 9
	} else {
		ok = false
	}
	if hasPtr {
		p := map[string]any{}
		if ptrHasV {
			p["v"] = int(ptrV)
		}
		m["ptr"] = p
		ok = ok && ptrHasV && ptrV >= 0 && ptrV <= 9
	}
	n := rt.Choose("listLen", 3)
	l0, l1 := rt.Int("l0", -5, 5), rt.Int("l1", -5, 5)
	if hasList {
		lst := []any{}
		if n > 0 {
			lst = append(lst, int(l0))
		}
		if n > 1 {
			lst = append(lst, int(l1))
		}
		m["list"] = lst
	}
	mv := rt.Int("mv", -5, 5)
	mapHas := rt.Bool("mapHasEntry")
	if hasM {
		mm := map[string]any{}
		if mapHas {
			mm["k"] = int(mv)
		}
		m["m"] = mm
	}
	// a map of slices whose element is a list, an empty list, or null (as a JSON document may say)
	msKind := rt.Choose("mapOfSlices", 4) // 0 absent, 1 one-element list, 2 empty list, 3 null
	switch msKind {
	case 1:
		m["ms"] = map[string]any{"k": []any{json.Number("7")}}
	case 2:
		m["ms"] = map[string]any{"k": []any{}}
	case 3:
		m["ms"] = map[string]any{"k": nil}
		rt.Cover("nullelement")
	}
	// the all-optional nested struct: absent, supplied empty, or supplied with both dependent members
	limKind := rt.Choose("lim", 3)
	switch limKind {
	case 1:
		m["lim"] = map[string]any{}
	case 2:
		m["lim"] = map[string]any{"a": 1, "b": 2}
	}
	hasReq := rt.Bool("hasReq")
	reqV := rt.Int("reqV", -3, 12)
	if hasReq {
		m["req"] = int(reqV)
		ok = ok && reqV >= 0 && reqV <= 9
	} else {
		ok = false // a required scalar behind a pointer must be supplied like any other
	}
	var t c08Outer
	err := NewUnmarshaler("json").Unmarshal(m, &t)
	if msKind == 3 {
		// null for a list-valued map element: accepted as "no list" or rejected, but never a panic
		// (a panic is reported by the engine as a violation of its own)
		return
	}
	if !ok {
		rt.Cover("rejected")
		rt.CoverIf(!hasReq, "requiredpointer")
		rt.CoverIf(hasIn && !inHasV, "nestedmissing")
		rt.CoverIf(hasIn && inHasV && (inV < 0 || inV > 9), "nestedrange")
		rt.Assert(err != nil, "a missing required nested struct or nested field, or a nested number outside its range, is rejected")
		return
	}
	rt.Cover("accepted")
	rt.Assert(err == nil, "input meeting all declared constraints is accepted")
	rt.Assert(int64(t.In.V) == inV && t.In.W == w, "the nested struct holds the supplied values")
	rt.Assert(t.Req != nil && int64(*t.Req) == reqV, "the required pointer scalar holds the supplied value")
	if limKind == 0 {
		rt.Cover("alloptionalabsent")
	}
	if limKind == 2 {
		rt.Assert(t.Lim.A == 1 && t.Lim.B == 2 && t.Lim.C == 5, "the nested struct holds the supplied members and the default")
	} else {
		rt.Assert(t.Lim.A == 0 && t.Lim.B == 0 && t.Lim.C == 5, "a nested struct whose members are all optional or defaulted may be absent (or empty) and gets its defaults")
	}
	switch msKind {
	case 1:
		rt.Assert(len(t.MS) == 1 && len(t.MS["k"]) == 1 && t.MS["k"][0] == 7, "a map of lists holds the supplied lists")
	case 2:
		rt.Assert(len(t.MS) == 1 && len(t.MS["k"]) == 0, "an empty list stays an empty list")
	}
	if hasPtr {
		rt.Cover("pointer")
		rt.Assert(t.Ptr != nil && int64(t.Ptr.V) == ptrV && t.Ptr.W == "", "the pointed-to nested struct holds the supplied values")
	} else {
		rt.Assert(t.Ptr == nil, "an absent optional nested pointer stays nil")
	}
	if hasList {
		rt.Cover("slice")
		rt.Assert(len(t.List) == n, "the slice has the supplied length")
		rt.Assert(n < 1 || int64(t.List[0]) == l0, "slice element 0")
		rt.Assert(n < 2 || int64(t.List[1]) == l1, "slice element 1")
	} else {
		rt.Assert(len(t.List) == 0, "an absent optional slice stays empty")
	}
	if hasM {
		rt.Cover("mapfield")
		if mapHas {
			got, present := t.M["k"]
			rt.Assert(len(t.M) == 1 && present && int64(got) == mv, "the map holds exactly the supplied entry")
		} else {
			rt.Assert(len(t.M) == 0, "an empty map is supplied")
		}
	} else {
		rt.Assert(len(t.M) == 0, "an absent optional map stays empty")
	}
}
