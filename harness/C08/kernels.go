//verif:pkg core/mapping
package mapping

// C08 — declarative validation, pure kernels only (DESIGN §4 C08): the reflection-driven traversal of
// the unmarshaller is outside what the engine can execute; decided here are the option-resolution
// frame property, the range validators over every float64 (exact FloatingPoint encoding, NaN and
// infinities included), the options validator and the range-bracket parser.

import (
	"math"

	rt "github.com/zeromicro/go-zero/internal/verifrt"
)

type c08Valuer struct{ depOn, selfOn bool }

func (v c08Valuer) Value(key string) (any, bool) {
	switch key {
	case "dep":
		return 1, v.depOn
	case "self":
		return 1, v.selfOn
	}
	return nil, false
}

//verif:entry native tier=quick,thorough cover=rebuilt,same,error,withrange,withoptions,withdefault
//verif:doc toOptionsWithContext for every option combination: Optional/FromString/Inherit booleans, OptionalDep in {"", dep, !dep, !}, Range nil/non-nil, Options nil/non-nil, Default empty/non-empty, presence of dep and self in the Valuer symbolic. Resolved Optional equals the specification table and the result carries the same Range, Options, Default and FromString as the declaration (frame property).
func Verif_C08_Options() {
	o := &fieldOptions{}
	o.Optional = rt.Bool("optional")
	o.FromString = rt.Bool("string")
	o.Inherit = rt.Bool("inherit")
	o.OptionalDep = []string{"", "dep", "!dep", "!"}[rt.Choose("dep", 4)]
	if rt.Bool("hasRange") {
		o.Range = &numberRange{left: 1, leftInclude: true, right: 5, rightInclude: true}
		rt.Cover("withrange")
	}
	if rt.Bool("hasOptions") {
		o.Options = []string{"a", "b"}
		rt.Cover("withoptions")
	}
	if rt.Bool("hasDefault") {
		o.Default = "d"
		rt.Cover("withdefault")
	}
	m := c08Valuer{depOn: rt.Bool("depPresent"), selfOn: rt.Bool("selfPresent")}
	res, err := o.toOptionsWithContext("self", m, "T.self")

	// specification table
	wantErr, wantOptional := false, false
	if o.Optional {
		switch o.OptionalDep {
		case "":
			wantOptional = true
		case "!":
			wantErr = true
		case "!dep":
			wantErr = m.depOn == m.selfOn
			wantOptional = m.depOn
		case "dep":
			wantErr = m.depOn != m.selfOn
			wantOptional = !m.depOn
		}
	}
	if wantErr {
		rt.Cover("error")
		rt.Assert(err != nil && res == nil, "inconsistent dependency is rejected")
		return
	}
	rt.Assert(err == nil && res != nil, "consistent declarations resolve without error")
	if res == nil {
		return
	}
	if res == &o.fieldOptionsWithContext {
		rt.Cover("same")
	} else {
		rt.Cover("rebuilt")
	}
	rt.Assert(res.Optional == wantOptional, "resolved Optional follows the dependency table")
	rt.Assert(res.Range == o.Range, "the declared range survives option resolution (a supplied value is still range-checked)")
	rt.Assert(len(res.Options) == len(o.Options) && (len(o.Options) == 0 || &res.Options[0] == &o.Options[0]), "the declared options survive option resolution")
	rt.Assert(res.Default == o.Default, "the declared default survives option resolution")
	rt.Assert(res.FromString == o.FromString, "the string flag survives option resolution")
}

//verif:entry native tier=quick,thorough cover=inside,below,above,nan,boundary
//verif:doc validateNumberRange for EVERY float64 value (exact IEEE-754 FloatingPoint sort: NaN, infinities, signed zeros, subnormals included) against every range with non-NaN bounds left <= right and all four open/closed combinations: nil iff the value lies inside the declared range.
func Verif_C08_RangeFloat() {
	fv := rt.FloatAny("value")
	nr := &numberRange{left: rt.FloatAny("left"), right: rt.FloatAny("right"), leftInclude: rt.Bool("leftInclude"), rightInclude: rt.Bool("rightInclude")}
	rt.Assume(!math.IsNaN(nr.left) && !math.IsNaN(nr.right))
	rt.Assume(nr.left <= nr.right)
	err := validateNumberRange(fv, nr)
	leftOK := fv > nr.left
	if nr.leftInclude {
		leftOK = fv >= nr.left
	}
	rightOK := fv < nr.right
	if nr.rightInclude {
		rightOK = fv <= nr.right
	}
	inside := leftOK && rightOK
	rt.CoverIf(math.IsNaN(fv), "nan")
	rt.CoverIf(fv == nr.left || fv == nr.right, "boundary")
	if inside {
		rt.Cover("inside")
	} else if !leftOK {
		rt.Cover("below")
	} else {
		rt.Cover("above")
	}
	rt.Assert((err == nil) == inside, "a numeric value is accepted iff it lies inside the declared range (open/closed ends respected; NaN lies in no range)")
	if err != nil {
		rt.Assert(err == errNumberRange, "range violations are reported as errNumberRange")
	}
	// the two front-ends used by the unmarshaller agree with it
	opts := &fieldOptionsWithContext{Range: nr}
	rt.Assert((validateValueRange(fv, opts) == nil) == inside, "validateValueRange(float64) agrees")
	rt.Assert(validateValueRange(fv, nil) == nil && validateValueRange(fv, &fieldOptionsWithContext{}) == nil, "no declared range means no range error")
}

//verif:entry native tier=quick,thorough cover=intinside,intoutside,notnumber
//verif:doc validateValueRange for every int64 / uint64 value against ranges with bounds drawn from a list of representable constants (all four open/closed combinations): accepted iff inside; non-numeric values are rejected when a range is declared.
func Verif_C08_RangeInt() {
	bounds := []float64{-9007199254740992, -2.5, 0, 1, 5, 9007199254740992}
	li := rt.Choose("left", len(bounds))
	ri := li + rt.Choose("width", len(bounds)-li)
	nr := &numberRange{left: bounds[li], right: bounds[ri], leftInclude: rt.Bool("leftInclude"), rightInclude: rt.Bool("rightInclude")}
	opts := &fieldOptionsWithContext{Range: nr}
	if rt.Choose("kind", 3) == 2 {
		rt.Cover("notnumber")
		rt.Assert(validateValueRange("5", opts) != nil, "a non-numeric value never passes a declared range")
		return
	}
	v := rt.Int("value", -(1 << 53), 1<<53)
	f := float64(v)
	leftOK := f > nr.left
	if nr.leftInclude {
		leftOK = f >= nr.left
	}
	rightOK := f < nr.right
	if nr.rightInclude {
		rightOK = f <= nr.right
	}
	inside := leftOK && rightOK
	if inside {
		rt.Cover("intinside")
	} else {
		rt.Cover("intoutside")
	}
	rt.Assert((validateValueRange(v, opts) == nil) == inside, "an int64 value is accepted iff inside the declared range")
	rt.Assert((validateValueRange(int(v), opts) == nil) == inside, "an int value is accepted iff inside the declared range")
	if v >= 0 {
		rt.Assert((validateValueRange(uint64(v), opts) == nil) == inside, "a uint64 value is accepted iff inside the declared range")
	}
}

//verif:entry native tier=quick,thorough cover=member,nonmember,nooptions
//verif:doc validateValueInOptions with the value and 0..3 options as atoms (equalities solver-chosen): nil iff no options are declared or the value equals one of them.
func Verif_C08_Options2() {
	n := rt.Choose("n", 4)
	var options []string
	for i := 0; i < n; i++ {
		options = append(options, rt.Atom("opt"))
	}
	v := rt.Atom("value")
	member := false
	for _, o := range options {
		if o == v {
			member = true
		}
	}
	err := validateValueInOptions(v, options)
	switch {
	case n == 0:
		rt.Cover("nooptions")
	case member:
		rt.Cover("member")
	default:
		rt.Cover("nonmember")
	}
	rt.Assert((err == nil) == (n == 0 || member), "a supplied value is accepted iff it is one of the declared options")
}

//verif:entry native tier=quick,thorough cover=parsed,badbracket,inverted,emptypoint
//verif:doc parseNumberRange on b0 ++ L ++ ":" ++ R ++ b1 with both bracket bytes symbolic (all 256 values) and numerals from a small list (including empty ends): include flags iff '[' / ']', any other bracket byte is an error, left > right and half-open single points are rejected.
func Verif_C08_ParseRange() {
	nums := []string{"", "1", "2", "2.5", "-3"}
	vals := []float64{0, 1, 2, 2.5, -3}
	li, ri := rt.Choose("L", len(nums)), rt.Choose("R", len(nums))
	b := rt.Bytes("bracket", 2)
	str := string(b[0:1]) + nums[li] + ":" + nums[ri] + string(b[1:2])
	nr, err := parseNumberRange(str)
	okL := b[0] == '[' || b[0] == '('
	okR := b[1] == ']' || b[1] == ')'
	if !okL || !okR {
		rt.Cover("badbracket")
		rt.Assert(err != nil, "any other bracket byte is rejected")
		return
	}
	if li == 0 && ri == 0 {
		rt.Assert(err != nil, "a range without any bound is rejected")
		return
	}
	left, right := vals[li], vals[ri]
	if li == 0 {
		left = -math.MaxFloat64
	}
	if ri == 0 {
		right = math.MaxFloat64
	}
	if left > right {
		rt.Cover("inverted")
		rt.Assert(err != nil, "left > right is rejected")
		return
	}
	if left == right && !(b[0] == '[' && b[1] == ']') {
		rt.Cover("emptypoint")
		rt.Assert(err != nil, "a half-open or open single point is rejected")
		return
	}
	rt.Cover("parsed")
	rt.Assert(err == nil && nr != nil, "well-formed ranges parse")
	if nr != nil {
		rt.Assert(nr.left == left && nr.right == right, "bounds are the declared numerals")
		rt.Assert(nr.leftInclude == (b[0] == '[') && nr.rightInclude == (b[1] == ']'), "include flags follow the bracket kind")
	}
}
