//verif:pkg zrpc/internal/serverinterceptors
package serverinterceptors

// C02 — the zRPC shedding interceptor over a recording shedder.

import (
	"context"
	"errors"

	"github.com/zeromicro/go-zero/core/load"
	rt "github.com/zeromicro/go-zero/internal/verifrt"
	"google.golang.org/grpc"
	gcodes "google.golang.org/grpc/codes"
	"google.golang.org/grpc/status"
)

type c02Promise struct{ pass, fail int }

func (p *c02Promise) Pass() { p.pass++ }
func (p *c02Promise) Fail() { p.fail++ }

type c02Shedder struct {
	shed    bool
	allows  int
	promise *c02Promise
}

func (s *c02Shedder) Allow() (load.Promise, error) {
	s.allows++
	if s.shed {
		return nil, load.ErrServiceOverloaded
	}
	s.promise = &c02Promise{}
	return s.promise, nil
}

var c02ErrHandler = errors.New("c02: handler error")

//verif:entry tier=quick,thorough steps=1000000 cover=shed,pass,fail,panicked
//verif:doc UnarySheddingInterceptor over a recording shedder: shed => gRPC ResourceExhausted and the handler does not run; admitted => the handler runs exactly once, its response and error are returned unchanged and the promise is resolved exactly once - Fail iff the handler's error is (or wraps) context.DeadlineExceeded, Pass otherwise - also when the handler panics.
func Verif_C02_ZrpcWrapper() {
	s := &c02Shedder{shed: rt.Bool("sheds")}
	ic := UnarySheddingInterceptor(s, nil)
	ran := 0
	outcome := rt.Choose("handler", 4)
	var wantErr error
	switch outcome {
	case 1:
		wantErr = c02ErrHandler
	case 2:
		wantErr = context.DeadlineExceeded
	}
	var resp any
	var err error
	var panicked any
	func() {
		defer func() { panicked = recover() }()
		resp, err = ic(context.Background(), "req", &grpc.UnaryServerInfo{FullMethod: "/svc/Call"}, func(ctx context.Context, req any) (any, error) {
			ran++
			if outcome == 3 {
				panic("c02: handler panicked")
			}
			return "resp", wantErr
		})
	}()
	rt.Assert(s.allows == 1, "the shedder is consulted exactly once per request")
	if s.shed {
		rt.Cover("shed")
		rt.Assert(ran == 0 && resp == nil && status.Code(err) == gcodes.ResourceExhausted, "a shed request never runs the handler and is answered ResourceExhausted")
		return
	}
	p := s.promise
	rt.Assert(ran == 1 && p.pass+p.fail == 1, "an admitted request runs the handler once and resolves its promise exactly once")
	if outcome == 3 {
		rt.Cover("panicked")
		rt.Assert(panicked == "c02: handler panicked", "a handler panic is re-raised unchanged")
		return
	}
	rt.Assert(resp == any("resp") && err == wantErr, "response and error of the handler are returned unchanged")
	if outcome == 2 {
		rt.Cover("fail")
		rt.Assert(p.fail == 1, "a handler that ran into its deadline is resolved as failed")
	} else {
		rt.Cover("pass")
		rt.Assert(p.pass == 1, "any other outcome is resolved as passed")
	}
}
