//verif:pkg core/load
package load

// C02 — adaptive load shedder: sheds only when overloaded and over capacity (DESIGN §4 C02).
// Real code executed: adaptiveShedder.{Allow,shouldDrop,systemOverloaded,stillHot,highThru,maxFlight,
// maxPass,minRt,overloadFactor,addFlying}, promise.{Pass,Fail}, NewAdaptiveShedder, nopShedder, the
// real RollingWindow (Reduce/Add/span/updateOffset) and mathx.AtLeast/Between.
// One step from an ARBITRARY shedder state; the capacity oracle is recomputed by the harness with its
// own loops over the bucket arrays. Floats: E2 (real relaxation with rounding axioms).

import (
	"math"
	"time"

	"github.com/zeromicro/go-zero/core/collection"
	rt "github.com/zeromicro/go-zero/internal/verifrt"
)

var c02CpuVal int64

//verif:stub github.com/zeromicro/go-zero/core/stat.CpuUsage c02Cpu
func c02Cpu() int64 { return c02CpuVal }

const c02Interval = 100 * time.Millisecond

type c02State struct {
	s        *adaptiveShedder
	size     int
	cpu, thr int64
	flying   int64
	avg      float64
	dropped  bool
	overload int64
	t0, now  int64
	passSum  []int64
	rtSum    []int64
	rtCnt    []int64
	offset   int
}

// c02Arbitrary builds a shedder (1..3 buckets of 100 ms, like the default 50 x 100 ms) and overwrites
// its whole state with symbolic values.
func c02Arbitrary() *c02State {
	st := &c02State{}
	maxBuckets, maxPass, rtCounts := 2, int64(1), 2
	if rt.Tier() > 0 {
		maxBuckets, maxPass, rtCounts = 3, 1, 4
	}
	if rt.Tier() > 0 {
		st.size = rt.Choose("buckets", maxBuckets) + 1
		rtCounts = 3 // 0..2 latency samples per bucket
		if st.size == 3 {
			rtCounts = 2 // three buckets: 0..1 latency samples per bucket
		}
	} else {
		st.size = 2 // quick: two buckets (one visible under IgnoreCurrentBucket, both after a bucket boundary)
	}
	st.thr = rt.Int("cpuThreshold", 1, 999)
	st.t0 = rt.Now()
	sh := NewAdaptiveShedder(WithBuckets(st.size), WithWindow(time.Duration(st.size)*c02Interval), WithCpuThreshold(st.thr))
	s := sh.(*adaptiveShedder)
	st.s = s
	rt.Assert(s.windowScale == 0.01, "window scale = buckets per second / 1000")
	st.offset = rt.Choose("offset", st.size)
	s.passCounter.VerifSetOffset(st.offset)
	s.rtCounter.VerifSetOffset(st.offset)
	pb, rb := s.passCounter.VerifBuckets(), s.rtCounter.VerifBuckets()
	for i := 0; i < st.size; i++ {
		ps := rt.Int("passSum", 0, maxPass)
		cnt := int64(rt.Choose("rtCount", rtCounts)) // 0..1 (quick) / 0..2 (thorough; 0..1 with 3 buckets) samples in the latency bucket (divisor concrete)
		rs := rt.Int("rtSum", 0, 1<<20)
		pb[i].Sum, pb[i].Count = ps, ps
		rb[i].Sum, rb[i].Count = rs, cnt
		st.passSum = append(st.passSum, ps)
		st.rtSum = append(st.rtSum, rs)
		st.rtCnt = append(st.rtCnt, cnt)
	}
	st.flying = rt.Int("flying", 0, 1<<20)
	s.flying = st.flying
	st.avg = rt.Float("avgFlying", 0, 1048576)
	s.avgFlying = st.avg
	st.dropped = rt.Bool("droppedRecently")
	s.droppedRecently.Set(st.dropped)
	st.now = st.t0 + rt.Int("elapsed_ns", 0, 1<<40)
	st.overload = rt.Int("overloadTime", 0, 1<<62)
	rt.Assume(st.overload <= st.now)
	s.overloadTime.Set(time.Duration(st.overload))
	st.cpu = rt.Int("cpu", 0, 1000)
	c02CpuVal = st.cpu
	rt.SetNow(st.now)
	return st
}

// visible lists the bucket indices Reduce must visit at time now (IgnoreCurrentBucket window whose
// last bucket started at t0): the reference for "which buckets" is C16's claim, recomputed here.
func (st *c02State) visible() []int {
	span := int((st.now - st.t0) / int64(c02Interval))
	if span < 0 || span >= st.size {
		span = st.size
	}
	n := st.size - span
	if span == 0 {
		n = st.size - 1
	}
	var out []int
	for i := 0; i < n; i++ {
		out = append(out, (st.offset+span+1+i)%st.size)
	}
	return out
}

// capacity: max(1, peak per-bucket pass count x minimum average latency x window scale)
func (st *c02State) capacity() float64 {
	peak := int64(1)
	minRt := 1000.0
	for _, i := range st.visible() {
		if st.passSum[i] > peak {
			peak = st.passSum[i]
		}
		if st.rtCnt[i] > 0 {
			avg := math.Round(float64(st.rtSum[i]) / float64(st.rtCnt[i]))
			if avg < minRt {
				minRt = avg
			}
		}
	}
	c := float64(peak) * minRt * 0.01
	if c < 1 {
		c = 1
	}
	return c
}

//verif:entry tier=quick,thorough steps=400000 recycle=1 cover=shed,admitted,hot,overloaded,idle,cooledoff
//verif:doc Allow from an arbitrary state: 2 buckets (quick) / 1..3 (thorough) of 100 ms with symbolic pass counts (0..1 per bucket; 0..8 made the capacity product non-linear and did not finish), latency sums (0..2^20) over 0..1 / 0..2 samples per bucket (0..1 with 3 buckets), flying in [0,2^20], avgFlying in [0,2^20], droppedRecently, overloadTime, cpu 0..1000, threshold 1..999, clock symbolic. Shed only if (cpu >= threshold or still hot) and flying > 10% of capacity; with nothing in flight never shed; in-flight accounting exact.
func Verif_C02_Allow() {
	st := c02Arbitrary()
	s := st.s
	capacity := st.capacity()
	over := st.cpu >= st.thr
	hot := st.dropped && st.overload != 0 && st.now-st.overload < int64(time.Second)
	p, err := s.Allow()
	if over {
		rt.Assert(int64(s.overloadTime.Load()) == st.now, "an Allow that sees the CPU at/above the threshold records the instant")
	} else {
		rt.Assert(int64(s.overloadTime.Load()) == st.overload, "an Allow that sees the CPU below the threshold leaves the last-overload instant alone")
	}
	if err != nil {
		rt.Cover("shed")
		rt.Assert(err == ErrServiceOverloaded && p == nil, "the only refusal is ErrServiceOverloaded")
		rt.Assert(over || hot, "a request is shed only if the CPU is at/above the threshold now, or was within the preceding second while shedding was in progress")
		if !over {
			rt.Cover("hot")
		}
		rt.Assert(float64(st.flying) > capacity*0.1, "a request is shed only if the in-flight count exceeds 10% of the capacity estimate")
		rt.Assert(st.flying > 0, "with nothing in flight no request is ever shed")
		rt.Assert(s.flying == st.flying, "a shed request is not counted as in flight")
		rt.Assert(s.droppedRecently.True(), "shedding in progress is remembered")
	} else {
		rt.Cover("admitted")
		rt.Assert(p != nil, "an admitted request gets a promise")
		rt.Assert(s.flying == st.flying+1, "an admitted request counts as in flight from Allow")
		if st.flying == 0 {
			rt.Cover("idle")
		}
		if !over && st.dropped && st.overload != 0 && st.now-st.overload >= int64(time.Second) {
			rt.Cover("cooledoff")
			rt.Assert(!s.droppedRecently.True(), "once a second has passed since the CPU was last seen overloaded, shedding is no longer in progress (a later overload starts afresh)")
		} else if !over {
			rt.Assert(s.droppedRecently.True() == st.dropped, "an admission does not change whether shedding is in progress")
		}
		if over {
			rt.Cover("overloaded")
			rt.Assert(!(float64(st.flying) > capacity && st.avg > capacity), "when the CPU is overloaded and both the in-flight count and its moving average exceed the capacity estimate, Allow sheds")
		}
	}
}

//verif:entry tier=quick,thorough steps=400000 recycle=1 cover=pass,fail
//verif:doc promise.Pass / Fail from an arbitrary state after an admission at a symbolic earlier instant: flying decreases by exactly one; Pass records ceil(latency ms) in the latency window and 1 in the pass window (current bucket), Fail records nothing; the moving average moves by the documented exponential step.
func Verif_C02_Resolve() {
	st := c02Arbitrary()
	s := st.s
	rt.Assume(st.flying >= 1)
	start := st.now - rt.Int("latency_ns", 0, 1<<36)
	rt.Assume(start >= 0)
	p := &promise{start: time.Duration(start), shedder: s}
	pb, rb := s.passCounter.VerifBuckets(), s.rtCounter.VerifBuckets()
	if rt.Bool("pass") {
		rt.Cover("pass")
		p.Pass()
		cur := s.passCounter.VerifOffset()
		rt.Assert(s.rtCounter.VerifOffset() == cur, "both windows advance together")
		lat := st.now - start
		wantRt := (lat + 999999) / 1000000
		span := int((st.now - st.t0) / int64(c02Interval))
		if span == 0 {
			rt.Assert(pb[cur].Sum == st.passSum[cur]+1 && rb[cur].Sum == st.rtSum[cur]+wantRt && rb[cur].Count == st.rtCnt[cur]+1, "Pass adds one pass and ceil(latency) ms to the current bucket")
		} else {
			rt.Assert(pb[cur].Sum == 1 && rb[cur].Sum == wantRt && rb[cur].Count == 1, "Pass opens a fresh bucket with one pass and ceil(latency) ms")
		}
	} else {
		rt.Cover("fail")
		p.Fail()
		for i := 0; i < st.size; i++ {
			rt.Assert(pb[i].Sum == st.passSum[i] && rb[i].Sum == st.rtSum[i] && rb[i].Count == st.rtCnt[i], "Fail records neither a pass nor a latency")
		}
	}
	rt.Assert(s.flying == st.flying-1, "resolving a promise ends exactly one in-flight request")
	want := st.avg*flyingBeta + float64(st.flying-1)*(1-flyingBeta)
	rt.Assert(s.avgFlying == want, "the in-flight moving average takes one exponential step towards the new in-flight count")
}

//verif:entry tier=quick,thorough cover=disabled
//verif:doc Disable(): NewAdaptiveShedder returns a shedder whose Allow never fails and whose promise is inert, whatever the CPU load.
func Verif_C02_Disabled() {
	Disable()
	c02CpuVal = rt.Int("cpu", 0, 1000)
	sh := NewAdaptiveShedder(WithCpuThreshold(rt.Int("cpuThreshold", 1, 999)))
	for i := 0; i < 3; i++ {
		p, err := sh.Allow()
		rt.Assert(err == nil && p != nil, "a disabled shedder never sheds")
		if rt.Bool("pass") {
			p.Pass()
		} else {
			p.Fail()
		}
	}
	rt.Cover("disabled")
	_, isAdaptive := sh.(*adaptiveShedder)
	rt.Assert(!isAdaptive, "Disable() makes NewAdaptiveShedder return the no-op shedder")
	_ = collection.NewSet
}

//verif:entry tier=quick,thorough cover=coarse,fine,odd
//verif:doc NewAdaptiveShedder window scale for bucket lengths that do and do not divide one second (window, buckets) in {(1 s,1), (5 s,1), (2.2 s,2), (300 ms,1), (10 s,50), (1 s,3), (700 ms,7)}: the scale that converts "passes per bucket x latency in ms" into in-flight capacity is exactly (buckets per second)/1000 as a real quotient - never truncated to 0 for buckets longer than a second.
func Verif_C02_WindowScale() {
	cfgs := []struct {
		w time.Duration
		b int
	}{{time.Second, 1}, {5 * time.Second, 1}, {2200 * time.Millisecond, 2}, {300 * time.Millisecond, 1}, {10 * time.Second, 50}, {time.Second, 3}, {700 * time.Millisecond, 7}}
	c := cfgs[rt.Choose("config", len(cfgs))]
	s := NewAdaptiveShedder(WithWindow(c.w), WithBuckets(c.b)).(*adaptiveShedder)
	bucket := c.w / time.Duration(c.b)
	want := float64(time.Second) / float64(bucket) / 1000
	switch {
	case bucket > time.Second:
		rt.Cover("coarse")
	case time.Second%bucket == 0:
		rt.Cover("fine")
	default:
		rt.Cover("odd")
	}
	rt.Assert(s.windowScale == want, "window scale = buckets per second / 1000 (real quotient)")
	rt.Assert(s.windowScale > 0, "the window scale is never zero: the capacity estimate does not collapse for long buckets")
}

//verif:entry tier=quick,thorough steps=400000 recycle=1 cover=peak,floor,fastest,nolatency
//verif:doc The two factors of the capacity estimate on their own (linear, so the pass counts can be symbolic): 2..3 buckets of 100 ms with symbolic pass counts 0..1000 and latency sums 0..2^20 over 0..2 samples per bucket, window offset and clock symbolic: maxPass() is the largest pass count among the buckets the window currently shows, at least 1; minRt() is the smallest rounded average latency among them, 1000 ms when none has a sample.
func Verif_C02_Peak() {
	st := &c02State{}
	st.size = 2 + rt.Choose("buckets", 2)
	st.t0 = rt.Now()
	s := NewAdaptiveShedder(WithBuckets(st.size), WithWindow(time.Duration(st.size)*c02Interval)).(*adaptiveShedder)
	st.offset = rt.Choose("offset", st.size)
	s.passCounter.VerifSetOffset(st.offset)
	s.rtCounter.VerifSetOffset(st.offset)
	pb, rb := s.passCounter.VerifBuckets(), s.rtCounter.VerifBuckets()
	for i := 0; i < st.size; i++ {
		ps := rt.Int("passSum", 0, 1000)
		cnt := int64(rt.Choose("rtCount", 3))
		rs := rt.Int("rtSum", 0, 1<<20)
		pb[i].Sum, pb[i].Count = ps, ps
		rb[i].Sum, rb[i].Count = rs, cnt
		st.passSum = append(st.passSum, ps)
		st.rtSum = append(st.rtSum, rs)
		st.rtCnt = append(st.rtCnt, cnt)
	}
	st.now = st.t0 + rt.Int("elapsed_ns", 0, 1<<40)
	rt.SetNow(st.now)
	peak := int64(1)
	minRt := 1000.0
	sampled := false
	for _, i := range st.visible() {
		if st.passSum[i] > peak {
			peak = st.passSum[i]
		}
		if st.rtCnt[i] > 0 {
			sampled = true
			avg := math.Round(float64(st.rtSum[i]) / float64(st.rtCnt[i]))
			if avg < minRt {
				minRt = avg
			}
		}
	}
	if peak > 1 {
		rt.Cover("peak")
	} else {
		rt.Cover("floor")
	}
	rt.Assert(s.maxPass() == peak, "the peak is the largest per-bucket pass count the window currently shows, and at least 1")
	if sampled {
		rt.Cover("fastest")
	} else {
		rt.Cover("nolatency")
	}
	rt.Assert(s.minRt() == minRt, "the latency factor is the smallest rounded average latency among the visible buckets, 1000 ms when there is none")
}
