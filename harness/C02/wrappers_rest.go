//verif:pkg rest/handler
package handler

// C02 — the REST shedding middleware over a recording shedder: every admitted request resolves its
// promise exactly once (Pass, or Fail when the handler itself answered 503), a shed request gets 503.

import (
	"net/http"

	"github.com/zeromicro/go-zero/core/load"
	rt "github.com/zeromicro/go-zero/internal/verifrt"
)

type c02Promise struct{ pass, fail int }

func (p *c02Promise) Pass() { p.pass++ }
func (p *c02Promise) Fail() { p.fail++ }

type c02Shedder struct {
	shed    bool
	allows  int
	promise *c02Promise
}

func (s *c02Shedder) Allow() (load.Promise, error) {
	s.allows++
	if s.shed {
		return nil, load.ErrServiceOverloaded
	}
	s.promise = &c02Promise{}
	return s.promise, nil
}

type c02RW struct {
	h    http.Header
	code int
}

func (w *c02RW) Header() http.Header { return w.h }
func (w *c02RW) WriteHeader(c int) {
	if w.code == 0 {
		w.code = c
	}
}
func (w *c02RW) Write(p []byte) (int, error) {
	if w.code == 0 {
		w.code = 200
	}
	return len(p), nil
}

//verif:entry tier=quick,thorough steps=1000000 cover=shed,pass,fail,panicked,noshedder
//verif:doc SheddingHandler over a recording shedder: the shedder admits or sheds; the inner handler writes a status (any of 100..599), nothing, or panics after writing: shed => 503 and the handler does not run; admitted => the handler runs exactly once and the promise is resolved exactly once - Fail iff the handler answered 503, Pass otherwise - also on panic (re-raised); a nil shedder leaves the handler unwrapped.
func Verif_C02_RestWrapper() {
	if rt.Choose("nilShedder", 2) == 1 {
		rt.Cover("noshedder")
		ran := 0
		h := SheddingHandler(nil, nil)(http.HandlerFunc(func(w http.ResponseWriter, r *http.Request) { ran++ }))
		h.ServeHTTP(&c02RW{h: http.Header{}}, &http.Request{Method: "GET", Header: http.Header{}})
		rt.Assert(ran == 1, "without a shedder every request reaches the handler")
		return
	}
	s := &c02Shedder{shed: rt.Bool("sheds")}
	ran := 0
	behaviour := rt.Choose("handler", 3)
	code := int(rt.Int("code", 100, 599))
	h := SheddingHandler(s, nil)(http.HandlerFunc(func(w http.ResponseWriter, r *http.Request) {
		ran++
		switch behaviour {
		case 0:
			w.WriteHeader(code)
		case 2:
			w.WriteHeader(code)
			panic("c02: handler panicked")
		}
	}))
	rec := &c02RW{h: http.Header{}}
	var panicked any
	func() {
		defer func() { panicked = recover() }()
		h.ServeHTTP(rec, &http.Request{Method: "GET", Header: http.Header{}, RequestURI: "/x"})
	}()
	rt.Assert(s.allows == 1, "the shedder is consulted exactly once per request")
	if s.shed {
		rt.Cover("shed")
		rt.Assert(ran == 0 && rec.code == http.StatusServiceUnavailable && panicked == nil, "a shed request gets 503 and never reaches the handler")
		return
	}
	p := s.promise
	rt.Assert(ran == 1 && p.pass+p.fail == 1, "an admitted request runs the handler once and resolves its promise exactly once")
	status := 200
	if behaviour != 1 {
		status = code
	}
	if behaviour == 2 {
		rt.Cover("panicked")
		rt.Assert(panicked == "c02: handler panicked", "a handler panic is re-raised unchanged")
	}
	if status == http.StatusServiceUnavailable {
		rt.Cover("fail")
		rt.Assert(p.fail == 1, "a request the handler itself answered with 503 is resolved as failed")
	} else {
		rt.Cover("pass")
		rt.Assert(p.pass == 1, "any other response is resolved as passed")
	}
}
