//verif:pkg core/collection
package collection

import "time"

// Accessors used by the breaker/shedder harnesses to build an arbitrary window state directly
// (exists only in the verification overlay).

func (rw *RollingWindow[T, B]) VerifBuckets() []B       { return rw.win.buckets }
func (rw *RollingWindow[T, B]) VerifOffset() int        { return rw.offset }
func (rw *RollingWindow[T, B]) VerifSetOffset(o int)    { rw.offset = o }
func (rw *RollingWindow[T, B]) VerifLastTime() int64    { return int64(rw.lastTime) }
func (rw *RollingWindow[T, B]) VerifSetLastTime(t int64) { rw.lastTime = time.Duration(t) }
