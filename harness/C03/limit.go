//verif:pkg core/limit
package limit

// C03 — rate limiters never grant more than the configured quota (DESIGN §4 C03).
// Real code executed: PeriodLimit.TakeCtx/calcExpireSeconds, TokenLimiter.reserveN/AllowN/
// startMonitor, NewTokenLimiter (Go, from SSA) and periodscript.lua / tokenscript.lua (text read
// from the running tree, run by the engine's Lua evaluator on the Redis model). Scripts are atomic,
// so interleaved calls are sequences of the steps checked here.

import (
	"context"
	"sync/atomic"
	"time"

	"github.com/zeromicro/go-zero/core/stores/redis"
	rt "github.com/zeromicro/go-zero/internal/verifrt"
	xrate "golang.org/x/time/rate"
)

const c03Max = int64(1) << 20

// ---------------------------------------------------------------- PeriodLimit

//verif:entry tier=quick,thorough cover=first,allowed,hit,over,expired
//verif:doc PeriodLimit one step (inductive): counter c >= 0 already taken in the current period with remaining TTL in (0, period] (or key absent / expired), quota and period symbolic in [1,2^20]; one Take: Allowed iff c+1 < quota, HitQuota iff c+1 = quota, OverQuota iff c+1 > quota; TTL = period set only by the first Take of a period.
func Verif_C03_PeriodStep() {
	quota := rt.Int("quota", 1, c03Max)
	period := rt.Int("period", 1, c03Max)
	l := NewPeriodLimit(int(period), int(quota), &redis.Redis{}, "p:")
	key := rt.Atom("key")
	c := rt.Int("count", 0, 1<<40)
	ttl := rt.Int("ttl_ms", 1, c03Max*1000)
	rt.Assume(ttl <= period*1000)
	if c > 0 {
		rt.RedisSetInt("p:"+key, c, ttl)
	}
	el := rt.Int("elapsed_ms", 0, c03Max*2000)
	rt.Advance(el * 1000000)
	live := c > 0 && ttl > el
	if !live {
		c = 0
	}
	code, err := l.Take(key)
	rt.Assert(err == nil, "no error while the store is reachable")
	switch {
	case c+1 < quota:
		rt.Cover("allowed")
		rt.Assert(code == Allowed, "the first quota-1 requests of a period are Allowed")
	case c+1 == quota:
		rt.Cover("hit")
		rt.Assert(code == HitQuota, "the quota-th request of a period is flagged HitQuota")
	default:
		rt.Cover("over")
		rt.Assert(code == OverQuota, "every request after the quota-th is OverQuota until the period expires")
	}
	n, ok := rt.RedisGetInt("p:" + key)
	rt.Assert(ok && n == c+1, "each Take counts exactly once")
	if c == 0 {
		if live || el > 0 {
			rt.Cover("expired")
		}
		rt.Cover("first")
		rt.Assert(rt.RedisPTTL("p:"+key) == period*1000, "the first Take of a period starts the period (TTL = period)")
	} else {
		rt.Assert(rt.RedisPTTL("p:"+key) == ttl-el, "later Takes never extend the period")
	}
}

//verif:entry tier=quick,thorough cover=aligned
//verif:doc PeriodLimit with Align(): the first Take sets a TTL in [1, period] equal to the time left to the next period boundary of the (UTC) clock.
func Verif_C03_PeriodAlign() {
	quota := rt.Int("quota", 1, c03Max)
	period := rt.Int("period", 1, c03Max)
	l := NewPeriodLimit(int(period), int(quota), &redis.Redis{}, "p:", Align())
	nowSec := rt.Int("now_s", 1, 1<<33)
	rt.SetNow(nowSec * 1000000000)
	code, err := l.Take("k")
	rt.Assert(err == nil && (code == Allowed || code == HitQuota), "first request of a period is granted")
	ttl := rt.RedisPTTL("p:k")
	rt.Cover("aligned")
	rt.Assert(ttl >= 1000 && ttl <= period*1000, "aligned TTL lies in [1, period] seconds")
	rt.Assert(ttl == (period-nowSec%period)*1000, "aligned TTL ends at the next period boundary")
}

//verif:entry tier=quick,thorough cover=fault,cancelled
//verif:doc PeriodLimit store failure: an unreachable store or a cancelled context is reported as (Unknown, err), never as a grant, and the counter is untouched.
func Verif_C03_PeriodFault() {
	l := NewPeriodLimit(int(rt.Int("period", 1, c03Max)), int(rt.Int("quota", 1, c03Max)), &redis.Redis{}, "p:")
	ctx := context.Background()
	if rt.Bool("cancelled") {
		c, cancel := context.WithCancel(ctx)
		cancel()
		ctx = c
		rt.Cover("cancelled")
	} else {
		rt.RedisFail(true)
		rt.Cover("fault")
	}
	code, err := l.TakeCtx(ctx, "k")
	rt.Assert(err != nil && code == Unknown, "a store error is reported as an error, never as a grant")
	rt.RedisFail(false)
	_, ok := rt.RedisGetInt("p:k")
	rt.Assert(!ok, "a failed Take does not count")
}

//verif:entry tier=quick,thorough cover=rollover,exhausted
//verif:doc PeriodLimit histories: 4 (quick) / 6 (thorough) Takes on one key with symbolic clock advances, quota in 1..3, period symbolic: within one period exactly the first `quota` requests are granted.
func Verif_C03_PeriodHistory() {
	quota := int64(rt.Choose("quota", 3) + 1)
	period := rt.Int("period", 1, c03Max)
	l := NewPeriodLimit(int(period), int(quota), &redis.Redis{}, "p:")
	steps := 4
	if rt.Tier() > 0 {
		steps = 6
	}
	var count, startMs int64
	for s := 0; s < steps; s++ {
		rt.Advance(rt.Int("gap_ms", 0, c03Max*1000) * 1000000)
		now := rt.Now() / 1000000
		if count > 0 && now >= startMs+period*1000 {
			count = 0
			rt.Cover("rollover")
		}
		code, err := l.Take("k")
		rt.Assert(err == nil, "no error")
		if count == 0 {
			startMs = now
		}
		count++
		granted := code == Allowed || code == HitQuota
		rt.Assert(granted == (count <= quota), "within one period exactly the first `quota` requests are granted")
		rt.Assert((code == HitQuota) == (count == quota), "exactly the quota-th is flagged HitQuota")
		if count > quota {
			rt.Cover("exhausted")
			rt.Assert(code == OverQuota, "later ones are OverQuota")
		}
	}
}

// ---------------------------------------------------------------- TokenLimiter

// the in-process rescue limiter is x/time/rate: replaced by its contract (an arbitrary answer that
// the harness records), so that "the answer on every failure path is the local limiter's" is checkable
var (
	c03RescueCalls  int
	c03RescueAnswer bool
	c03RescueN      int
	c03RescueLim    *xrate.Limiter
)

func c03AllowN(lim *xrate.Limiter, t time.Time, n int) bool {
	c03RescueCalls++
	c03RescueAnswer = rt.Bool("rescue.AllowN")
	c03RescueN = n
	c03RescueLim = lim
	return c03RescueAnswer
}

type c03Ref struct {
	rate, burst int64
	tokens      int64
	last        int64
	fresh       bool
}

func (b *c03Ref) take(now, n int64) bool {
	if b.fresh {
		b.tokens, b.fresh = b.burst, false
	} else if now > b.last {
		b.tokens += (now - b.last) * b.rate
		if b.tokens > b.burst {
			b.tokens = b.burst
		}
	}
	b.last = now
	if b.tokens >= n {
		b.tokens -= n
		return true
	}
	return false
}

//verif:entry tier=quick,thorough cover=granted,denied,refilled,shared
//verif:stub (*golang.org/x/time/rate.Limiter).AllowN c03AllowN
//verif:doc TokenLimiter histories: rate in 1..8 (case split), burst symbolic in [1,2^20], two instances sharing key and store, 3 AllowN calls (thorough: every rate 1..8 with 3 calls, rates 1 and 3 with 4 calls) at symbolic non-decreasing whole seconds (callers' clocks agree with the store's clock: assumption) with n in [0, burst+1]; every answer equals the reference bucket's, the store is never bypassed, and every window obeys sum(granted) <= burst + rate*elapsed.
func Verif_C03_TokenHistory() {
	var rate int64
	steps := 3
	if rt.Tier() > 0 {
		// thorough: every rate 1..8 with 3 calls, rates 1 and 3 with 4 calls (4 calls at all 8 rates
		// did not finish in 25 minutes of solver time)
		if rt.Choose("deep", 2) == 1 {
			rate = []int64{1, 3}[rt.Choose("rate", 2)]
			steps = 4
		} else {
			rate = int64(rt.Choose("rate", 8) + 1)
		}
	} else {
		rate = []int64{1, 3, 8}[rt.Choose("rate", 3)] // quick: three rates (every rate 1..8 is covered by TokenStep)
	}
	burst := rt.Int("burst", 1, c03Max)
	store := &redis.Redis{}
	ls := []*TokenLimiter{NewTokenLimiter(int(rate), int(burst), store, "tk"), NewTokenLimiter(int(rate), int(burst), store, "tk")}
	ref := &c03Ref{rate: rate, burst: burst, fresh: true}
	now := rt.Int("t0_s", 1, 1<<33)
	times := make([]int64, steps)
	grants := make([]int64, steps)
	for s := 0; s < steps; s++ {
		now += rt.Int("gap_s", 0, c03Max)
		rt.SetNow(now * 1000000000)
		n := rt.Int("n", 0, c03Max+1)
		rt.Assume(n <= burst+1)
		who := rt.Choose("who", 2)
		if who == 1 && s > 0 {
			rt.Cover("shared")
		}
		got := ls[who].AllowN(time.Unix(now, 0), int(n))
		rt.Assert(c03RescueCalls == 0, "with a reachable store the shared bucket decides (no fallback to the private limiter)")
		want := ref.take(now, n)
		rt.Assert(got == want, "all instances jointly behave as one token bucket: granted iff the bucket holds n")
		times[s] = now
		if got {
			grants[s] = n
			rt.Cover("granted")
			if s > 0 && n > 0 && times[s] > times[s-1] {
				rt.Cover("refilled")
			}
		} else {
			rt.Cover("denied")
		}
		for i := 0; i <= s; i++ {
			var sum int64
			for j := i; j <= s; j++ {
				sum += grants[j]
			}
			rt.Assert(sum <= burst+rate*(times[s]-times[i]), "over any interval at most burst + rate*elapsed tokens are granted")
		}
	}
}

//verif:entry tier=quick,thorough cover=fresh,stale,partial
//verif:stub (*golang.org/x/time/rate.Limiter).AllowN c03AllowN
//verif:doc TokenLimiter one step (inductive): arbitrary stored state (tokens c in [0,burst], last refresh ts, both keys written together with the script's TTL) or empty store, rate 1..8, burst symbolic, now >= ts symbolic; the answer and the new stored state equal the reference bucket's.
func Verif_C03_TokenStep() {
	rate := int64(rt.Choose("rate", 8) + 1)
	burst := rt.Int("burst", 1, c03Max)
	lim := NewTokenLimiter(int(rate), int(burst), &redis.Redis{}, "tk")
	ref := &c03Ref{rate: rate, burst: burst, fresh: true}
	ts := rt.Int("ts_s", 1, 1<<33)
	now := ts + rt.Int("gap_s", 0, c03Max*4)
	if rt.Bool("present") {
		c := rt.Int("tokens", 0, c03Max)
		rt.Assume(c <= burst)
		ttl := 2 * burst / rate // floor(2*burst/rate), the TTL the script uses
		if ttl < 1 {
			ttl = 1
		}
		rt.SetNow(ts * 1000000000)
		rt.RedisSetInt(lim.tokenKey, c, ttl*1000)
		rt.RedisSetInt(lim.timestampKey, ts, ttl*1000)
		ref.fresh, ref.tokens, ref.last = false, c, ts
		if now >= ts+ttl {
			rt.Cover("stale")
			rt.Assert(c+(now-ts)*rate >= burst, "by the time the keys expire the bucket would have refilled completely (TTL >= fill time)")
		} else {
			rt.Cover("partial")
		}
	} else {
		rt.Cover("fresh")
	}
	rt.SetNow(now * 1000000000)
	n := rt.Int("n", 0, c03Max+1)
	rt.Assume(n <= burst+1)
	got := lim.AllowN(time.Unix(now, 0), int(n))
	rt.Assert(c03RescueCalls == 0, "with a reachable store the shared bucket decides (no fallback to the private limiter)")
	rt.Assert(got == ref.take(now, n), "granted iff the bucket holds n tokens")
	tk, ok1 := rt.RedisGetInt(lim.tokenKey)
	st, ok2 := rt.RedisGetInt(lim.timestampKey)
	rt.Assert(ok1 && ok2 && tk == ref.tokens && st == now, "the stored bucket state is the reference state")
	rt.Assert(rt.RedisPTTL(lim.tokenKey) > 0 && rt.RedisPTTL(lim.timestampKey) > 0, "bucket keys always carry a positive TTL")
}

//verif:entry tier=quick,thorough cover=storedown,ctxdone,ctxdeadline,afterdown
//verif:stub (*golang.org/x/time/rate.Limiter).AllowN c03AllowN
//verif:doc TokenLimiter faults: store unreachable => the answer is exactly the private limiter's AllowN(now, n) (built with the same burst and rate), never a constant grant; cancelled/expired context => false; once marked down, later calls use the private limiter without touching the store.
func Verif_C03_TokenFaults() {
	rate := int64(rt.Choose("rate", 8) + 1)
	burst := rt.Int("burst", 1, c03Max)
	lim := NewTokenLimiter(int(rate), int(burst), &redis.Redis{}, "tk")
	rt.Assert(int64(lim.rescueLimiter.Burst()) == burst, "the private limiter has the same burst")
	perSec := float64(lim.rescueLimiter.Limit())
	rt.Assert(perSec >= float64(rate)*0.999999 && perSec <= float64(rate)*1.000001, "the private limiter refills at `rate` per second (whole-nanosecond rounding aside)")
	n := rt.Int("n", 0, c03Max+1)
	now := time.Unix(rt.Int("now_s", 1, 1<<33), 0)
	if rt.Bool("cancelled") {
		ctx, cancel := context.WithCancel(context.Background())
		if rt.Bool("deadline") {
			// a context whose deadline has already passed: ctx.Err() == DeadlineExceeded
			ctx, cancel = context.WithDeadline(context.Background(), time.Unix(1, 0))
			rt.Cover("ctxdeadline")
		}
		cancel()
		rt.Cover("ctxdone")
		got := lim.AllowNCtx(ctx, now, int(n))
		rt.Assert(!got, "a cancelled or expired context is never a grant")
		rt.Assert(lim.redisAlive == 1 && !lim.monitorStarted, "a context error does not mark the store as down")
		rt.Assert(c03RescueCalls == 0, "context errors do not consult the private limiter")
		return
	}
	rt.RedisFail(true)
	rt.Cover("storedown")
	got := lim.AllowN(now, int(n))
	rt.Assert(c03RescueCalls == 1 && c03RescueLim == lim.rescueLimiter && c03RescueN == int(n), "on a store error the instance's own private limiter is asked for exactly n tokens")
	rt.Assert(got == c03RescueAnswer, "while the store is unreachable the answer is the private limiter's, never a constant grant")
	// the monitor goroutine has been started and the limiter is marked down: the next call stays local
	calls := rt.RedisScriptRuns()
	got2 := lim.AllowN(now, int(n))
	rt.Cover("afterdown")
	rt.Assert(c03RescueCalls == 2 && got2 == c03RescueAnswer, "while marked down every answer is the private limiter's")
	rt.Assert(rt.RedisScriptRuns() == calls, "a limiter marked down does not run the script until the monitor has seen the store alive")
}

//verif:entry tier=quick,thorough cover=recovered,lateFailure
//verif:stub (*golang.org/x/time/rate.Limiter).AllowN c03AllowN
//verif:doc TokenLimiter recovery under the scheduler (all interleavings, sleep-set reduced): an outage is noticed (monitor goroutine started), the store comes back, and a request that failed during the outage reaches startMonitor at an arbitrary later point (before, during or after the monitor's successful ping and its clean-up): once everything is quiescent the limiter is marked alive again - it is never left on its private bucket with no monitor running - and a following call runs the shared script.
func Verif_C03_TokenRecovery() {
	lim := NewTokenLimiter(1, 1, &redis.Redis{}, "tk")
	now := time.Unix(100, 0)
	rt.RedisFail(true)
	lim.AllowN(now, 1)
	rt.Assert(lim.redisAlive == 0 && lim.monitorStarted, "a store error marks the limiter down and starts the monitor")
	private := lim.rescueLimiter
	go func() {
		rt.Yield()
		rt.Cover("lateFailure")
		lim.startMonitor() // the tail of a reserveN whose script call failed during the outage
	}()
	rt.RedisFail(false)
	rt.WaitIdle()
	rt.Assert(atomic.LoadUint32(&lim.redisAlive) == 1, "after the store is back the limiter returns to the shared bucket: it is never left marked down with no monitor running")
	rt.Cover("recovered")
	rt.Assert(lim.rescueLimiter == private, "the private bucket used during outages is the same object across recoveries: it is not replaced (i.e. refilled to burst) when the store comes back")
	runs := rt.RedisScriptRuns()
	lim.AllowN(now, 1)
	rt.Assert(rt.RedisScriptRuns() == runs+1, "a recovered limiter consults the store again")
}
