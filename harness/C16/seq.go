//verif:pkg core/collection
package collection

// C16 — in-memory collections behave as their sequential reference models (DESIGN §4 C16, App. C).
// Ring / Queue / SafeMap: one operation from an ARBITRARY state satisfying the representation
// invariant (inductive step: covers every history length), plus the base case on the constructor.

import (
	rt "github.com/zeromicro/go-zero/internal/verifrt"
)

// ---------------------------------------------------------------- Ring

//verif:entry native tier=quick,thorough cover=wrapped,notfull
//verif:doc Ring: n in 1..4, index arbitrary in [0,2n) (invariant), element values symbolic; one Add; Take before/after compared with last_n(Take ++ [v]).
func Verif_C16_RingStep() {
	n := rt.Choose("n", 4) + 1
	r := NewRing(n)
	rt.Assert(r.index == 0 && len(r.elements) == n && len(r.Take()) == 0, "NewRing(n) is empty (base case)")
	// arbitrary state
	idx := int(rt.Int("index", 0, int64(2*n-1)))
	r.index = idx
	vals := make([]int64, n)
	for i := range vals {
		vals[i] = rt.Int64("e")
		r.elements[i] = vals[i]
	}
	before := r.Take()
	// reference: the logical content before
	v := rt.Int64("v")
	r.Add(v)
	after := r.Take()
	rt.Assert(r.index >= 0 && r.index < 2*n, "Ring invariant 0 <= index < 2n is re-established")
	want := append(append([]any{}, before...), v)
	if len(want) > n {
		rt.Cover("wrapped")
		want = want[len(want)-n:]
	} else {
		rt.Cover("notfull")
	}
	rt.Assert(len(after) == len(want), "Ring keeps min(count, n) elements")
	for i := range want {
		if i < len(after) {
			rt.Assert(after[i] == want[i], "Ring.Take returns the last n elements in insertion order")
		}
	}
}

// ---------------------------------------------------------------- Queue

func c16QueueContents(q *Queue) []any {
	var out []any
	for i := 0; i < q.count; i++ {
		out = append(out, q.elements[(q.head+i)%len(q.elements)])
	}
	return out
}

//verif:entry native tier=quick,thorough cover=grew,took,empty
//verif:doc Queue: backing length L in 1..4, growth step in 1..2, head/count arbitrary under the invariant tail=(head+count) mod L; one Put or Take; FIFO contents compared with a slice model.
func Verif_C16_QueueStep() {
	L := rt.Choose("L", 4) + 1
	size := rt.Choose("size", 2) + 1
	q := NewQueue(size)
	rt.Assert(q.Empty() && q.count == 0 && q.head == 0 && q.tail == 0, "NewQueue is empty (base case)")
	q.elements = make([]any, L)
	head := rt.Choose("head", L)
	count := rt.Choose("count", L+1)
	q.head, q.count, q.tail = head, count, (head+count)%L
	for i := 0; i < L; i++ {
		q.elements[i] = rt.Int64("e")
	}
	model := c16QueueContents(q)
	if rt.Bool("put") {
		v := rt.Int64("v")
		q.Put(v)
		model = append(model, v)
		if count == L {
			rt.Cover("grew")
		}
	} else {
		got, ok := q.Take()
		if len(model) == 0 {
			rt.Cover("empty")
			rt.Assert(!ok && got == nil, "Take on an empty queue reports empty")
		} else {
			rt.Cover("took")
			rt.Assert(ok && got == model[0], "Take returns the oldest element")
			model = model[1:]
		}
	}
	rt.Assert(q.count == len(model), "Queue count matches the model")
	rt.Assert(q.head >= 0 && q.head < len(q.elements) && q.tail == (q.head+q.count)%len(q.elements), "Queue invariant tail=(head+count) mod L is re-established")
	got := c16QueueContents(q)
	for i := range model {
		rt.Assert(i < len(got) && got[i] == model[i], "Queue holds the model's elements in FIFO order")
	}
	rt.Assert(q.Empty() == (len(model) == 0), "Empty() agrees with the model")
}

// ---------------------------------------------------------------- SafeMap

func c16Union(m *SafeMap) map[any]any {
	u := map[any]any{}
	for k, v := range m.dirtyOld {
		u[k] = v
	}
	for k, v := range m.dirtyNew {
		u[k] = v
	}
	return u
}

//verif:entry native tier=quick,thorough cover=migratedOld,migratedNew,setNewGen
//verif:doc SafeMap: deletionOld/deletionNew arbitrary in 0..10001 (so both migration thresholds and the Set generation switch are reached directly), dirtyOld and dirtyNew hold 0..2 keys each out of {k0,k1,k2} (disjoint: invariant); one Set/Del/Get with a key from {k0,k1,k2,k3}; union map compared with a Go map model.
func Verif_C16_SafeMapStep() {
	m := NewSafeMap()
	rt.Assert(m.Size() == 0, "NewSafeMap is empty (base case)")
	keys := []string{"k0", "k1", "k2", "k3"}
	// arbitrary disjoint placement of k0..k2: 0 absent, 1 old, 2 new
	for i := 0; i < 3; i++ {
		switch rt.Choose("place", 3) {
		case 1:
			m.dirtyOld[keys[i]] = rt.Int64("val")
		case 2:
			m.dirtyNew[keys[i]] = rt.Int64("val")
		}
	}
	m.deletionOld = int(rt.Int("deletionOld", 0, maxDeletion+1))
	m.deletionNew = int(rt.Int("deletionNew", 0, maxDeletion+1))
	model := c16Union(m)
	oldBefore, newBefore := m.deletionOld, m.deletionNew
	k := keys[rt.Choose("key", 4)]
	switch rt.Choose("op", 3) {
	case 0:
		v := rt.Int64("v")
		if m.deletionOld > maxDeletion {
			rt.Cover("setNewGen")
		}
		m.Set(k, v)
		model[k] = v
	case 1:
		m.Del(k)
		delete(model, k)
		if oldBefore >= maxDeletion-1 && m.deletionOld < oldBefore {
			rt.Cover("migratedOld")
		}
		if newBefore >= maxDeletion-1 && m.deletionNew == 0 {
			rt.Cover("migratedNew")
		}
	case 2:
		got, ok := m.Get(k)
		want, wok := model[k]
		rt.Assert(ok == wok && (!ok || got == want), "Get returns the model's value")
	}
	// invariant: generations stay disjoint, counters non-negative
	for kk := range m.dirtyOld {
		_, dup := m.dirtyNew[kk]
		rt.Assert(!dup, "SafeMap generations stay disjoint (a key lives in at most one of them)")
	}
	rt.Assert(m.deletionOld >= 0 && m.deletionNew >= 0, "deletion counters stay non-negative")
	u := c16Union(m)
	rt.Assert(len(u) == len(model) && m.Size() == len(model), "Size matches the model")
	for _, kk := range keys {
		got, ok := m.Get(kk)
		want, wok := model[kk]
		rt.Assert(ok == wok, "SafeMap holds exactly the model's keys")
		rt.Assert(!ok || !wok || got == want, "SafeMap returns the model's (latest) value for every key")
	}
	n := 0
	m.Range(func(key, val any) bool { n++; w, ok := model[key]; rt.Assert(ok && w == val, "Range visits only model entries"); return true })
	rt.Assert(n == len(model), "Range visits every entry exactly once")
	// a callback that asks to stop is not called again, whichever generation the entries live in
	calls := 0
	m.Range(func(key, val any) bool { calls++; return false })
	if len(model) > 0 {
		rt.Assert(calls == 1, "Range stops at once when the callback returns false")
	} else {
		rt.Assert(calls == 0, "Range over an empty map calls nothing")
	}
}

// ---------------------------------------------------------------- Set

//verif:entry native tier=quick,thorough cover=dup
//verif:doc Set: up to 4 AddInt/Remove operations on symbolic int keys (equality pattern solver-chosen); Contains/Count compared with a list model.
func Verif_C16_Set() {
	s := NewSet()
	var model []int
	has := func(x int) bool {
		for _, y := range model {
			if y == x {
				return true
			}
		}
		return false
	}
	nops := 3
	if rt.Tier() > 0 {
		nops = 4
	}
	for i := 0; i < nops; i++ {
		x := int(rt.Int("x", 0, 1<<40))
		if rt.Bool("add") {
			if has(x) {
				rt.Cover("dup")
			} else {
				model = append(model, x)
			}
			s.AddInt(x)
		} else {
			for j, y := range model {
				if y == x {
					model = append(model[:j:j], model[j+1:]...)
					break
				}
			}
			s.Remove(x)
		}
		rt.Assert(s.Count() == len(model), "Set.Count equals the number of distinct members")
		probe := int(rt.Int("probe", 0, 1<<40))
		rt.Assert(s.Contains(probe) == has(probe), "Set.Contains agrees with the mathematical set")
	}
	ks := s.KeysInt()
	rt.Assert(len(ks) == len(model), "KeysInt lists every member once")
	for _, kk := range ks {
		rt.Assert(has(kk), "KeysInt lists only members")
	}
}

type c16Point struct{ x, y int }

//verif:entry native tier=quick,thorough cover=float,small,structkey
//verif:doc Set with element types other than int/int64/uint/uint64/string (float64, int32, a comparable struct): Add then Contains / Count / Remove agree with the mathematical set for 2 symbolic-or-chosen elements (equal or different) and a probe.
func Verif_C16_SetOtherTypes() {
	s := NewSet()
	var a, b, probe any
	switch rt.Choose("kind", 3) {
	case 0:
		rt.Cover("float")
		vals := []float64{1.5, 2.5, -0.0}
		a, b, probe = vals[rt.Choose("a", 3)], vals[rt.Choose("b", 3)], vals[rt.Choose("p", 3)]
	case 1:
		rt.Cover("small")
		a, b, probe = int32(rt.Choose("a", 3)), int32(rt.Choose("b", 3)), int32(rt.Choose("p", 3))
	default:
		rt.Cover("structkey")
		a, b, probe = c16Point{rt.Choose("a", 2), 1}, c16Point{rt.Choose("b", 2), 1}, c16Point{rt.Choose("p", 2), 1}
	}
	s.Add(a, b)
	want := 2
	if a == b {
		want = 1
	}
	rt.Assert(s.Count() == want, "Set.Count equals the number of distinct members")
	rt.Assert(s.Contains(a) && s.Contains(b), "every added element is a member, whatever its type")
	rt.Assert(s.Contains(probe) == (probe == a || probe == b), "Set.Contains agrees with the mathematical set")
	s.Remove(a)
	rt.Assert(!s.Contains(a) && s.Contains(b) == (a != b), "Remove takes out exactly the given element")
}
