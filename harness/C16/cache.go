//verif:pkg core/collection
package collection

// C16 — in-memory Cache: latest value unless deleted/evicted, size <= limit, LRU eviction order,
// Take calls the loader only on a miss. The timing wheel is a passive mailbox (buffered command
// channels, no run goroutine): expiry is C12's subject.

import (
	"errors"
	"time"

	rt "github.com/zeromicro/go-zero/internal/verifrt"
	"github.com/zeromicro/go-zero/core/lang"
	"github.com/zeromicro/go-zero/core/mathx"
	"github.com/zeromicro/go-zero/core/syncx"
)

// expiry jitter is irrelevant to LRU behaviour (and is C06's subject): any duration within +-5%
//verif:stub (github.com/zeromicro/go-zero/core/mathx.Unstable).AroundDuration c16AroundDuration
func c16AroundDuration(u mathx.Unstable, base time.Duration) time.Duration {
	b := int64(base)
	_ = b; return base
}

type c16Ticker struct{ c chan time.Time }

func (t c16Ticker) Chan() <-chan time.Time { return t.c }
func (t c16Ticker) Stop()                  {}

func c16NewCache(limit int) *Cache {
	cache := &Cache{
		data:           make(map[string]any),
		expire:         time.Minute,
		lruCache:       emptyLruCache,
		barrier:        syncx.NewSingleFlight(),
		unstableExpiry: mathx.NewUnstable(expiryDeviation),
		stats:          &cacheStat{name: "verif"},
	}
	if limit > 0 {
		cache.lruCache = newKeyLru(limit, cache.onEvict)
	}
	// the wheel is only a mailbox here (expiry is C12's subject): its command channels are buffered and
	// nobody drains them, so the cache code runs on one goroutine and no schedule has to be explored
	tw := &TimingWheel{
		interval:      time.Second,
		numSlots:      4,
		setChannel:    make(chan timingEntry, 64),
		moveChannel:   make(chan baseEntry, 64),
		removeChannel: make(chan any, 64),
		drainChannel:  make(chan func(key, value any)),
		stopChannel:   make(chan lang.PlaceholderType),
	}
	cache.timingWheel = tw
	return cache
}

type c16Model struct {
	limit int
	keys  []string // most recently used first
	vals  map[string]int64
}

func (m *c16Model) touch(k string) {
	for i, x := range m.keys {
		if x == k {
			m.keys = append(m.keys[:i:i], m.keys[i+1:]...)
			break
		}
	}
	m.keys = append([]string{k}, m.keys...)
}

func (m *c16Model) set(k string, v int64) {
	m.vals[k] = v
	m.touch(k)
	if m.limit > 0 && len(m.keys) > m.limit {
		old := m.keys[len(m.keys)-1]
		m.keys = m.keys[:len(m.keys)-1]
		delete(m.vals, old)
	}
}

func (m *c16Model) del(k string) {
	for i, x := range m.keys {
		if x == k {
			m.keys = append(m.keys[:i:i], m.keys[i+1:]...)
			break
		}
	}
	delete(m.vals, k)
}

//verif:entry tier=quick,thorough steps=3000000 cover=evicted,hit,miss,loaderr,prefilled,reset
//verif:doc Cache/keyLru: limit in {1,2} (quick) / {0(unbounded),1,2,3} (thorough); 3 (quick) / 4 (thorough) operations, each symbolically Set/Get/Del/Take(loader ok)/Take(loader error) on a key from {a,b,c}, starting from an empty cache or (with one operation less) from one that already holds a (older) and b (newer), a possibly having been deleted and set again; values symbolic; wheel ticker silent. Model: recency list + map.
func Verif_C16_CacheLRU() {
	limits := []int{1, 2}
	nops := 3
	if rt.Tier() > 0 {
		limits = []int{0, 1, 2, 3}
		nops = 4
	}
	limit := limits[rt.Choose("limit", len(limits))]
	c := c16NewCache(limit)
	m := &c16Model{limit: limit, vals: map[string]int64{}}
	keys := []string{"a", "b", "c"}
	errLoad := errors.New("c16: load failed")
	if pre := rt.Choose("prefilled", 3); pre > 0 {
		// start from a cache that already holds a (older) and b (newer), so that the remaining operations
		// reach "overwrite the oldest key, then insert beyond the limit"; variant 2 reaches that state
		// through Set a, Del a, Set a, Set b (a key that was deleted and set again)
		for j, k := range keys[:2] {
			v := int64(100 + j)
			c.Set(k, v)
			m.set(k, v)
			if pre == 2 && j == 0 {
				c.Del(k)
				m.del(k)
				c.Set(k, v)
				m.set(k, v)
				rt.Cover("reset")
			}
		}
		rt.Cover("prefilled")
		nops-- // same depth as the empty start
	}
	for i := 0; i < nops; i++ {
		k := keys[rt.Choose("key", len(keys))]
		switch rt.Choose("op", 5) {
		case 0:
			v := rt.Int64("v")
			if limit > 0 && len(m.keys) == limit {
				if _, present := m.vals[k]; !present {
					rt.Cover("evicted")
				}
			}
			c.Set(k, v)
			m.set(k, v)
		case 1:
			got, ok := c.Get(k)
			want, wok := m.vals[k]
			rt.Assert(ok == wok, "Get finds a key iff it was set and not deleted or evicted")
			if ok && wok {
				rt.Cover("hit")
				rt.Assert(got == want, "Get returns the latest value set for the key")
				m.touch(k)
			}
		case 2:
			c.Del(k)
			m.del(k)
		case 3, 4:
			fail := false
			calls := 0
			v := rt.Int64("loaded")
			got, err := c.Take(k, func() (any, error) {
				calls++
				if fail {
					return nil, errLoad
				}
				return v, nil
			})
			_ = got
			want, wok := m.vals[k]
			if wok {
				rt.Assert(calls == 0 && err == nil && got == want, "Take serves a cached key without calling the loader")
				m.touch(k)
			} else {
				rt.Cover("miss")
				rt.Assert(calls == 1, "Take calls the loader exactly once on a miss")
				rt.Assert(err == nil && got == v, "Take returns the loaded value")
				m.set(k, v)
			}
		}
		if i == nops-1 && rt.Bool("failingLoader") {
			// a failing loader is not cached
			calls := 0
			kk := keys[rt.Choose("fkey", len(keys))]
			_, wok := m.vals[kk]
			_, err := c.Take(kk, func() (any, error) { calls++; return nil, errLoad })
			if !wok {
				rt.Cover("loaderr")
				rt.Assert(err == errLoad && calls == 1, "a loader error is returned")
				_, ok := c.Get(kk)
				rt.Assert(!ok, "a loader error is not cached")
			} else {
				m.touch(kk)
			}
		}
		rt.Assert(len(c.data) == len(m.vals), "the cache holds exactly the model's keys")
		rt.Assert(limit == 0 || len(c.data) <= limit, "the cache never holds more than its limit")
	}
	for _, k := range keys {
		c.lock.Lock()
		got, ok := c.data[k]
		c.lock.Unlock()
		want, wok := m.vals[k]
		rt.Assert(ok == wok && (!ok || got == want), "final contents equal the LRU model (eviction in least-recently-used order)")
	}
}
