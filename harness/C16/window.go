//verif:pkg core/collection
package collection

// C16 — RollingWindow.Reduce visits exactly the values added during the last `size` intervals
// (excluding the current one when so configured). Virtual clock: timex.Now is the engine clock.

import (
	"time"

	rt "github.com/zeromicro/go-zero/internal/verifrt"
)

const c16Iv = 250 * time.Millisecond

//verif:entry native tier=quick,thorough steps=3000000 cover=expired,boundary
//verif:doc RollingWindow: size 1..3 (quick) / 1..4 (thorough), interval 250ms, creation time symbolic, k=2 (quick) / 3 (thorough) Adds at symbolic non-decreasing times (gaps 0..(size+2) intervals, any nanosecond), symbolic values, then Reduce at a symbolic later time; with and without IgnoreCurrentBucket. Oracle: interval index arithmetic aligned to the creation time.
func Verif_C16_RollingWindow() {
	maxSize, k := 3, 2
	if rt.Tier() > 0 {
		maxSize, k = 4, 3
	}
	size := rt.Choose("size", maxSize) + 1
	ignore := rt.Bool("ignoreCurrent")
	t0 := int64(1e12) + rt.Int("t0", 0, 3*int64(c16Iv))
	rt.SetNow(t0)
	nb := func() *Bucket[int64] { return new(Bucket[int64]) }
	var rw *RollingWindow[int64, *Bucket[int64]]
	if ignore {
		rw = NewRollingWindow[int64, *Bucket[int64]](nb, size, c16Iv, IgnoreCurrentBucket[int64, *Bucket[int64]]())
	} else {
		rw = NewRollingWindow[int64, *Bucket[int64]](nb, size, c16Iv)
	}
	now := t0
	maxGap := int64(size+2) * int64(c16Iv)
	times := make([]int64, 0, k)
	vals := make([]int64, 0, k)
	for i := 0; i < k; i++ {
		now += rt.Int("gap", 0, maxGap)
		rt.SetNow(now)
		v := rt.Int("v", 1, 1000)
		rw.Add(v)
		times = append(times, now)
		vals = append(vals, v)
	}
	now += rt.Int("gap", 0, maxGap)
	rt.SetNow(now)
	var gotSum, gotCount int64
	visited := 0
	rw.Reduce(func(b *Bucket[int64]) {
		gotSum += b.Sum
		gotCount += b.Count
		visited++
	})
	idxNow := (now - t0) / int64(c16Iv)
	var wantSum, wantCount int64
	for i := range times {
		idx := (times[i] - t0) / int64(c16Iv)
		inWin := rt.And(idx > idxNow-int64(size), rt.Or(idx < idxNow, rt.And(idx == idxNow, !ignore)))
		wantSum += rt.Ite(inWin, vals[i], 0)
		wantCount += rt.Ite(inWin, 1, 0)
	}
	if wantCount < int64(k) {
		rt.Cover("expired")
	}
	if (now-t0)%int64(c16Iv) == 0 {
		rt.Cover("boundary")
	}
	rt.Assert(gotSum == wantSum, "Reduce sums exactly the values added during the last `size` intervals")
	rt.Assert(gotCount == wantCount, "Reduce counts exactly the additions of the last `size` intervals")
	rt.Assert(visited <= size, "Reduce never visits more than `size` buckets")
}
