//verif:pkg core/collection
package collection

// C12 — timing wheel: every timer fires exactly once, at its due tick (DESIGN §4 C12).
// The wheel is constructed directly (no run goroutine); run() serialises exactly the calls made
// here, so driving setTask/moveTask/removeTask/onTick sequentially loses nothing.

import (
	"container/list"
	"time"

	rt "github.com/zeromicro/go-zero/internal/verifrt"
)

const c12Interval = 1000 // ns per tick

type c12Fire struct {
	key   string
	value int64
	tick  int
}

type c12World struct {
	tw    *TimingWheel
	tick  int
	fired []c12Fire
	// ghost: per key due tick / value / active
	due    map[string]int
	val    map[string]int64
	active map[string]bool
	nfired map[string]int
	// a registration made from inside a firing callback (applied to the ghost after the tick's check)
	rearmDue     int
	rearmVal     int64
	rearmPending bool
}

func c12New(n int) *c12World {
	w := &c12World{due: map[string]int{}, val: map[string]int64{}, active: map[string]bool{}, nfired: map[string]int{}}
	tw := &TimingWheel{
		interval:  c12Interval,
		slots:     make([]*list.List, n),
		timers:    NewSafeMap(),
		tickedPos: n - 1,
		numSlots:  n,
	}
	tw.execute = func(k, v any) {
		w.fired = append(w.fired, c12Fire{key: k.(string), value: v.(int64), tick: w.tick})
	}
	tw.initSlots()
	w.tw = tw
	return w
}

// c12Delay draws a fully symbolic delay of 1..maxSteps whole intervals plus an arbitrary remainder;
// the number of whole intervals stays symbolic (the wheel's own index/circle arithmetic decides
// where the execution forks).
func c12Delay(name string, maxSteps int) (time.Duration, int) {
	d := rt.Int(name, c12Interval, int64(maxSteps)*c12Interval+c12Interval-1)
	return time.Duration(d), int(d / c12Interval)
}

func (w *c12World) set(key string, value int64, maxSteps int, name string) {
	d, steps := c12Delay(name, maxSteps)
	w.tw.setTask(&timingEntry{baseEntry: baseEntry{delay: d, key: key}, value: value})
	w.due[key], w.val[key], w.active[key] = w.tick+steps, value, true
}

func (w *c12World) move(key string, maxSteps int, name string) {
	d, steps := c12Delay(name, maxSteps)
	w.tw.moveTask(baseEntry{delay: d, key: key})
	if w.active[key] {
		w.due[key] = w.tick + steps
	}
}

func (w *c12World) remove(key string) {
	w.tw.removeTask(key)
	w.active[key] = false
}

// doTick advances the wheel by one tick and checks what fired against the ghost.
func (w *c12World) doTick(keys []string) {
	w.tick++
	before := len(w.fired)
	w.tw.onTick()
	now := w.fired[before:]
	for _, k := range keys {
		cnt := 0
		var got int64
		for _, f := range now {
			if f.key == k {
				cnt++
				got = f.value
			}
		}
		if w.active[k] && w.due[k] == w.tick {
			rt.Cover("fired")
			rt.Assert(cnt == 1, "a timer due at this tick fires exactly once at this tick")
			rt.Assert(cnt != 1 || got == w.val[k], "a firing timer carries the most recently set value")
			w.active[k] = false
			if w.rearmPending && k == "a" {
				w.due[k], w.val[k], w.active[k], w.rearmPending = w.rearmDue, w.rearmVal, true, false
			}
		} else {
			rt.Assert(cnt == 0, "no timer fires at a tick other than its due tick (early, late, removed or twice)")
		}
	}
}

func (w *c12World) finish(keys []string, ticks int) {
	for i := 0; i < ticks; i++ {
		w.doTick(keys)
	}
	for _, k := range keys {
		rt.Assert(!w.active[k], "every pending timer has fired by its due tick")
	}
}

//verif:entry tier=quick,thorough gosync steps=2000000 cover=fired,moved
//verif:doc SetMove: slots n<=3 (quick) / n<=4 (thorough); pre-ticks < 2n (every tickedPos, wrapped or not); set and move delays symbolic in [1, 3n] intervals (+ arbitrary remainder); 0..3n-1 ticks between set and move; one key.
func Verif_C12_SetMove() {
	maxN := 3
	if rt.Tier() > 0 {
		maxN = 4
	}
	n := rt.Choose("slots", maxN) + 1
	maxSteps := 3 * n
	w := c12New(n)
	keys := []string{"a"}
	pre := rt.Choose("preticks", 2*n)
	for i := 0; i < pre; i++ {
		w.doTick(keys)
	}
	w.set("a", rt.Int64("v1"), maxSteps, "d1")
	between := rt.Choose("between", maxSteps)
	for i := 0; i < between; i++ {
		w.doTick(keys)
	}
	w.move("a", maxSteps, "d2")
	rt.Cover("moved")
	w.finish(keys, maxSteps+1)
}

func (w *c12World) script(keys []string, k, maxSteps int, tickChoices []int) {
	for op := 0; op < k; op++ {
		key := keys[rt.Choose("key", len(keys))]
		switch rt.Choose("op", 3) {
		case 0:
			if w.active[key] {
				rt.Cover("reset")
			}
			w.set(key, rt.Int64("v"), maxSteps, "d")
		case 1:
			w.move(key, maxSteps, "d")
			rt.Cover("moved")
		case 2:
			w.remove(key)
			rt.Cover("removed")
		}
		t := tickChoices[rt.Choose("ticks", len(tickChoices))]
		for i := 0; i < t; i++ {
			w.doTick(keys)
		}
	}
	w.finish(keys, maxSteps+1)
}

//verif:entry tier=quick gosync steps=4000000 cover=fired,removed,reset,moved
//verif:doc Script (quick): slots n = 2; pre-ticks < n; 3 operations, each symbolically one of set / move / remove on key a followed by 0, 1 or n ticks; delays symbolic in [1, 2n+1] intervals (+ remainder); then 2n+2 closing ticks. Every tick is checked against the ghost.
func Verif_C12_Script() {
	n := 2
	w := c12New(n)
	keys := []string{"a"}
	pre := rt.Choose("preticks", n)
	for i := 0; i < pre; i++ {
		w.doTick(keys)
	}
	w.script(keys, 3, 2*n+1, []int{0, 1, n})
}

//verif:entry tier=thorough gosync steps=4000000 cover=fired,removed,reset,moved
//verif:doc Script (thorough): slots n = 2; pre-ticks < n; 4 operations on key a, each followed by 0..1 ticks (3 slots with 3 operations are covered by Script2Keys/Reuse); delays in [1, 2n+1] intervals.
func Verif_C12_Script4() {
	n := 2
	w := c12New(n)
	keys := []string{"a"}
	pre := rt.Choose("preticks", n)
	for i := 0; i < pre; i++ {
		w.doTick(keys)
	}
	ticks := []int{0, 1}
	ops := 4
	w.script(keys, ops, 2*n+1, ticks)
}

//verif:entry tier=thorough gosync steps=4000000 cover=fired,removed,reset,moved
//verif:doc Script2Keys (thorough): slots n = 2; 3 operations over keys {a,b} (interference between keys sharing a slot), each followed by 0, 1 or n ticks.
func Verif_C12_Script2Keys() {
	n := 2
	w := c12New(n)
	keys := []string{"a", "b"}
	w.script(keys, 3, 2*n+1, []int{0, 1, n})
}

//verif:entry tier=quick,thorough gosync steps=4000000 cover=fired,leftover
//verif:doc Reuse: a key is re-registered while its superseded entry is still linked in a slot: set; t1 ticks; (remove | move); set again; t2 ticks; (remove | move); closing ticks. slots n=2 (quick) / 2..3 (thorough), t1,t2 in {0,1,n}, delays in [1, 2n+1] intervals.
func Verif_C12_Reuse() {
	n := 2
	if rt.Tier() > 0 {
		n = 2 + rt.Choose("slots", 2)
	}
	maxSteps := 2*n + 1
	w := c12New(n)
	keys := []string{"a"}
	pre := rt.Choose("preticks", n)
	for i := 0; i < pre; i++ {
		w.doTick(keys)
	}
	tc := []int{0, 1, n}
	second := func() {
		if rt.Bool("remove") {
			w.remove("a")
		} else {
			w.move("a", maxSteps, "dm")
		}
	}
	w.set("a", rt.Int64("v1"), maxSteps, "d1")
	for i, t := 0, tc[rt.Choose("t1", 3)]; i < t; i++ {
		w.doTick(keys)
	}
	second()
	w.set("a", rt.Int64("v2"), maxSteps, "d2")
	rt.Cover("leftover")
	for i, t := 0, tc[rt.Choose("t2", 3)]; i < t; i++ {
		w.doTick(keys)
	}
	second()
	w.finish(keys, maxSteps+1)
}

//verif:entry tier=quick,thorough gosync steps=4000000 cover=drained,superseded,removedkey
//verif:doc Drain: slots n=2 (quick) / 2..3 (thorough), pre-ticks < n; set a; 0..1 ticks; then one of: nothing / move a / remove a / remove a and set it again / set a again (new value); set b; 0..1 ticks; then drainAll: every timer that is still pending is delivered exactly once with its latest value, removed or already fired timers and superseded entries are not delivered.
func Verif_C12_Drain() {
	n := 2
	if rt.Tier() > 0 {
		n = 2 + rt.Choose("slots", 2)
	}
	maxSteps := 2*n + 1
	w := c12New(n)
	keys := []string{"a", "b"}
	for i, pre := 0, rt.Choose("preticks", n); i < pre; i++ {
		w.doTick(keys)
	}
	w.set("a", rt.Int64("v1"), maxSteps, "d1")
	for i, t := 0, rt.Choose("t1", 2); i < t; i++ {
		w.doTick(keys)
	}
	switch rt.Choose("second", 5) {
	case 1:
		w.move("a", maxSteps, "dm")
		rt.Cover("superseded")
	case 2:
		w.remove("a")
		rt.Cover("removedkey")
	case 3:
		w.remove("a")
		w.set("a", rt.Int64("v2"), maxSteps, "d2")
		rt.Cover("superseded")
	case 4:
		w.set("a", rt.Int64("v2"), maxSteps, "d2")
	}
	w.set("b", rt.Int64("vb"), maxSteps, "db")
	for i, t := 0, rt.Choose("t2", 2); i < t; i++ {
		w.doTick(keys)
	}
	type kv struct {
		k string
		v int64
	}
	var got []kv
	w.tw.drainAll(func(k, v any) { got = append(got, kv{k.(string), v.(int64)}) })
	for _, k := range keys {
		cnt := 0
		var val int64
		for _, g := range got {
			if g.k == k {
				cnt++
				val = g.v
			}
		}
		if w.active[k] {
			rt.Cover("drained")
			rt.Assert(cnt == 1, "Drain delivers every pending timer exactly once")
			rt.Assert(cnt != 1 || val == w.val[k], "Drain delivers the most recently set value")
		} else {
			rt.Assert(cnt == 0, "Drain delivers nothing for a removed or already fired timer")
		}
	}
	for _, slot := range w.tw.slots {
		rt.Assert(slot.Len() == 0, "after Drain no entry is left in the wheel")
	}
}

//verif:entry tier=quick,thorough gosync steps=4000000 cover=rearmed,fired,removed
//verif:doc Rearm: the periodic-timer idiom - when key a fires, its callback sets a again (new value, delay in [1, 2n+1] intervals); afterwards a is optionally removed or moved; slots n=2 (quick) / 2..3 (thorough), pre-ticks < n: the re-armed timer fires exactly once at its new due tick with the new value, a removed one never fires.
func Verif_C12_Rearm() {
	n := 2
	if rt.Tier() > 0 {
		n = 2 + rt.Choose("slots", 2)
	}
	maxSteps := 2*n + 1
	w := c12New(n)
	keys := []string{"a"}
	rearmed := false
	inner := w.tw.execute
	w.tw.execute = func(k, v any) {
		inner(k, v)
		if !rearmed {
			rearmed = true
			rt.Cover("rearmed")
			// the callback runs while the wheel processes tick w.tick: the ghost's bookkeeping for the fired
			// timer is done in doTick after onTick returns, so the new registration is recorded there
			d, steps := c12Delay("d2", maxSteps)
			w.tw.setTask(&timingEntry{baseEntry: baseEntry{delay: d, key: "a"}, value: int64(2)})
			w.rearmDue, w.rearmVal, w.rearmPending = w.tick+steps, 2, true
		}
	}
	for i, pre := 0, rt.Choose("preticks", n); i < pre; i++ {
		w.doTick(keys)
	}
	w.set("a", 1, maxSteps, "d1")
	for i := 0; i < maxSteps+1 && !rearmed; i++ {
		w.doTick(keys)
	}
	rt.Assert(rearmed, "the first timer fires")
	switch rt.Choose("after", 3) {
	case 1:
		w.remove("a")
		rt.Cover("removed")
	case 2:
		w.move("a", maxSteps, "dm")
	}
	w.finish(keys, maxSteps+1)
}
