//verif:pkg core/collection
package collection

// C12 — timing wheel: every timer fires exactly once, at its due tick (DESIGN §4 C12).
// The wheel is constructed directly (no run goroutine); run() serialises exactly the calls made
// here, so driving setTask/moveTask/removeTask/onTick sequentially loses nothing.

import (
	"container/list"
	"time"

	rt "github.com/zeromicro/go-zero/internal/verifrt"
)

const c12Interval = 1000 // ns per tick

type c12Fire struct {
	key   string
	value int64
	tick  int
}

type c12World struct {
	tw    *TimingWheel
	tick  int
	fired []c12Fire
	// ghost: per key due tick / value / active
	due    map[string]int
	val    map[string]int64
	active map[string]bool
	nfired map[string]int
}

func c12New(n int) *c12World {
	w := &c12World{due: map[string]int{}, val: map[string]int64{}, active: map[string]bool{}, nfired: map[string]int{}}
	tw := &TimingWheel{
		interval:  c12Interval,
		slots:     make([]*list.List, n),
		timers:    NewSafeMap(),
		tickedPos: n - 1,
		numSlots:  n,
	}
	tw.execute = func(k, v any) {
		w.fired = append(w.fired, c12Fire{key: k.(string), value: v.(int64), tick: w.tick})
	}
	tw.initSlots()
	w.tw = tw
	return w
}

// delay returns a symbolic delay of exactly `steps` whole intervals plus an arbitrary remainder.
func c12Delay(name string, steps int) time.Duration {
	rem := rt.Int(name+".rem", 0, c12Interval-1)
	return time.Duration(int64(steps)*c12Interval + rem)
}

func (w *c12World) set(key string, value int64, steps int, name string) {
	w.tw.setTask(&timingEntry{baseEntry: baseEntry{delay: c12Delay(name, steps), key: key}, value: value})
	w.due[key], w.val[key], w.active[key] = w.tick+steps, value, true
}

func (w *c12World) move(key string, steps int, name string) {
	w.tw.moveTask(baseEntry{delay: c12Delay(name, steps), key: key})
	if w.active[key] {
		w.due[key] = w.tick + steps
	}
}

func (w *c12World) remove(key string) {
	w.tw.removeTask(key)
	w.active[key] = false
}

// doTick advances the wheel by one tick and checks what fired against the ghost.
func (w *c12World) doTick(keys []string) {
	w.tick++
	before := len(w.fired)
	w.tw.onTick()
	now := w.fired[before:]
	for _, k := range keys {
		cnt := 0
		var got int64
		for _, f := range now {
			if f.key == k {
				cnt++
				got = f.value
			}
		}
		want := w.active[k] && w.due[k] == w.tick
		if want {
			rt.Cover("fired")
			rt.Assert(cnt == 1, "a timer due at this tick fires exactly once at this tick")
			rt.Assert(cnt != 1 || got == w.val[k], "a firing timer carries the most recently set value")
			w.active[k] = false
		} else {
			rt.Assert(cnt == 0, "no timer fires at a tick other than its due tick (early, late, removed or twice)")
		}
	}
}

//verif:entry tier=quick,thorough gosync steps=400000 cover=fired,moved
//verif:doc slots n<=3 (quick) / n<=4 (thorough); pre-ticks < 2n; set and move delays of 1..2n+1 (quick) / 1..3n (thorough) whole intervals plus an arbitrary sub-interval remainder; 0..s1-1 ticks between set and move; one key.
func Verif_C12_SetMove() {
	maxN := 3
	if rt.Tier() > 0 {
		maxN = 4
	}
	n := rt.Choose("slots", maxN) + 1
	maxSteps := 2*n + 1
	if rt.Tier() > 0 {
		maxSteps = 3 * n
	}
	w := c12New(n)
	keys := []string{"a"}
	pre := rt.Choose("preticks", 2*n)
	for i := 0; i < pre; i++ {
		w.doTick(keys)
	}
	s1 := rt.Choose("s1", maxSteps) + 1
	s2 := rt.Choose("s2", maxSteps) + 1
	between := rt.Choose("between", s1)
	v1 := rt.Int64("v1")
	w.set("a", v1, s1, "d1")
	for i := 0; i < between; i++ {
		w.doTick(keys)
	}
	w.move("a", s2, "d2")
	rt.Cover("moved")
	for i := 0; i < s2+n+1; i++ {
		w.doTick(keys)
	}
	rt.Assert(!w.active["a"], "the moved timer has fired by its due tick")
}
