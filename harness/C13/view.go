//verif:pkg core/discov
package discov

// C13 — service discovery view equals the live registrations (DESIGN §4 C13).
// Real code executed: container.{OnAdd,OnDelete,addKv,doRemoveKey,removeKey,getValues,notifyChange,
// addListener}, cluster.{handleWatchEvents,load,handleChanges}, calculateChanges.
// Keys and values are atoms: which of them are equal ("same key, new value", "two keys, one value",
// "event replayed by the reload") is chosen by the solver.

import (
	"github.com/zeromicro/go-zero/core/discov/internal"
	rt "github.com/zeromicro/go-zero/internal/verifrt"
)

// c13Val: registered values are non-empty strings (assumption: an empty value cannot be told from
// etcd's value-less delete event).
func c13Val() string {
	v := rt.Atom("v")
	rt.Assume(len(v) > 0)
	return v
}

type c13Ghost struct {
	keys   []string // registered keys (pairwise distinct)
	vals   []string // their values
	lastK  []string // exclusive: per distinct value, the key most recently put with it
	lastV  []string
}

func (g *c13Ghost) find(k string) int {
	for i, x := range g.keys {
		if x == k {
			return i
		}
	}
	return -1
}

func (g *c13Ghost) put(k, v string) {
	if i := g.find(k); i >= 0 {
		g.vals[i] = v
	} else {
		g.keys = append(g.keys, k)
		g.vals = append(g.vals, v)
	}
	for i, x := range g.lastV {
		if x == v {
			g.lastK[i] = k
			return
		}
	}
	g.lastV = append(g.lastV, v)
	g.lastK = append(g.lastK, k)
}

func (g *c13Ghost) del(k string) {
	if i := g.find(k); i >= 0 {
		g.keys = append(g.keys[:i:i], g.keys[i+1:]...)
		g.vals = append(g.vals[:i:i], g.vals[i+1:]...)
	}
}

// visible reports whether value v must be in Values().
func (g *c13Ghost) visible(v string, exclusive bool) bool {
	if !exclusive {
		for _, x := range g.vals {
			if x == v {
				return true
			}
		}
		return false
	}
	for i, x := range g.lastV {
		if x == v {
			j := g.find(g.lastK[i])
			return j >= 0 && g.vals[j] == v
		}
	}
	return false
}

func c13CheckView(c *container, g *c13Ghost, exclusive bool) {
	got := c.getValues()
	for i, v := range got {
		rt.Assert(g.visible(v, exclusive), "Values() contains only values of currently registered keys")
		for j := 0; j < i; j++ {
			rt.Assert(got[j] != v, "Values() lists each value once")
		}
	}
	for _, v := range g.vals {
		if g.visible(v, exclusive) {
			found := false
			for _, x := range got {
				if x == v {
					found = true
				}
			}
			rt.Assert(found, "Values() contains the value of every currently registered key")
		}
	}
}

type c13World struct {
	exclusive bool
	c         *container
	vc        *internal.VerifCluster
	g         *c13Ghost
	notified  int
}

func c13NewWorld() *c13World {
	w := &c13World{exclusive: rt.Choose("exclusive", 2) == 1, g: &c13Ghost{}}
	if w.exclusive {
		rt.Cover("exclusive")
	}
	w.c = newContainer(w.exclusive)
	w.c.addListener(func() { w.notified++ })
	w.vc = internal.NewVerifCluster(w.c)
	return w
}

func (w *c13World) put() {
	g := w.g
	before := w.notified
	k, v := rt.Atom("k"), c13Val()
	if i := g.find(k); i >= 0 && g.vals[i] != v {
		rt.Cover("update")
	}
	for i, x := range g.vals {
		if x == v && g.keys[i] != k {
			rt.Cover("samevalue")
		}
	}
	w.vc.Put(k, v)
	g.put(k, v)
	rt.Assert(w.notified > before, "listeners are notified after a put")
}

func (w *c13World) del() {
	before := w.notified
	k := rt.Atom("k")
	if w.g.find(k) >= 0 {
		rt.Cover("delete")
	}
	w.vc.Delete(k)
	w.g.del(k)
	rt.Assert(w.notified > before, "listeners are notified after a delete")
}

func (w *c13World) reload(maxKvs int) {
	g := w.g
	before := w.notified
	n := rt.Choose("snapshot", maxKvs+1)
	var kvs []internal.KV
	for i := 0; i < n; i++ {
		kv := internal.KV{Key: rt.Atom("k"), Val: c13Val()}
		for _, o := range kvs {
			rt.Assume(o.Key != kv.Key) // a snapshot lists each key once
		}
		kvs = append(kvs, kv)
	}
	if w.exclusive && n == 2 {
		// two added kvs with the same value: their delivery order (map iteration) decides, unspecified
		i0, i1 := g.find(kvs[0].Key), g.find(kvs[1].Key)
		add0 := i0 < 0 || g.vals[i0] != kvs[0].Val
		add1 := i1 < 0 || g.vals[i1] != kvs[1].Val
		rt.Assume(!(add0 && add1 && kvs[0].Val == kvs[1].Val))
	}
	changed := len(kvs) != len(g.keys)
	for _, kv := range kvs {
		if i := g.find(kv.Key); i < 0 || g.vals[i] != kv.Val {
			changed = true
		}
	}
	rt.Cover("reload")
	w.vc.Reload(kvs)
	// ghost: the registry now is the snapshot; added/changed kvs count as freshly put
	old := &c13Ghost{keys: g.keys, vals: g.vals}
	g.keys, g.vals = nil, nil
	for _, kv := range kvs {
		if i := old.find(kv.Key); i >= 0 && old.vals[i] == kv.Val {
			g.keys = append(g.keys, kv.Key)
			g.vals = append(g.vals, kv.Val)
		}
	}
	for _, kv := range kvs {
		if i := old.find(kv.Key); i < 0 || old.vals[i] != kv.Val {
			if i >= 0 {
				rt.Cover("changedByReload")
			}
			g.put(kv.Key, kv.Val)
		}
	}
	if changed {
		rt.Assert(w.notified > before, "listeners are notified after a reload that changed something")
	}
}

func (w *c13World) check() {
	g := w.g
	// the cluster's own registry copy equals the ghost
	reg := w.vc.Registry()
	rt.Assert(len(reg) == len(g.keys), "the registry copy has exactly the registered keys")
	for i, k := range g.keys {
		v, ok := reg[k]
		rt.Assert(ok && v == g.vals[i], "the registry copy maps every registered key to its current value")
	}
	c13CheckView(w.c, g, w.exclusive)
}

//verif:entry tier=quick,thorough maporder=perm cover=update,delete,samevalue,exclusive
//verif:doc Watch-event histories: 4 (quick) / 5 (thorough) events, each a put(k,v) or delete(k); keys and values are atoms (equality patterns solver-chosen, values non-empty); exclusive and non-exclusive subscriber; map iteration order is a decision; view and registry copy checked after every event.
func Verif_C13_Events() {
	w := c13NewWorld()
	steps := 4
	if rt.Tier() > 0 {
		steps = 5
	}
	for s := 0; s < steps; s++ {
		if rt.Choose("event", 2) == 0 {
			w.put()
		} else {
			w.del()
		}
		w.check()
	}
}

//verif:entry tier=quick,thorough maporder=perm cover=reload,changedByReload,exclusive
//verif:doc Full reload (reconnect/compaction): a pre-state built by 0..2 puts, then load() with a snapshot of <= 2 kvs (Get + handleChanges + calculateChanges), then (thorough) one more put or delete. For exclusive subscribers snapshots introducing two new keys with the same value are excluded (their delivery order is unspecified).
func Verif_C13_Reload() {
	w := c13NewWorld()
	pre := rt.Choose("pre", 3)
	for i := 0; i < pre; i++ {
		w.put()
	}
	w.check()
	w.reload(2)
	w.check()
	if rt.Tier() > 0 {
		if rt.Choose("event", 2) == 0 {
			w.put()
		} else {
			w.del()
		}
		w.check()
	}
}
