//verif:pkg core/discov/internal
package internal

// C13 helper (in-package): drives the real cluster.handleWatchEvents / load / handleChanges with
// harness-made etcd events and snapshots, without any etcd connection.

import (
	"context"
	"time"

	"go.etcd.io/etcd/api/v3/etcdserverpb"
	"go.etcd.io/etcd/api/v3/mvccpb"
	clientv3 "go.etcd.io/etcd/client/v3"
)

// the etcd request timeout inside load() is irrelevant to the view (and its timer would only multiply schedules)
//verif:stub context.WithTimeout c13WithTimeout
func c13WithTimeout(parent context.Context, d time.Duration) (context.Context, context.CancelFunc) {
	return parent, func() {}
}

type verifCli struct {
	EtcdClient // every method the code under test does not use would trap (nil interface)
	kvs        []KV
}

func (c *verifCli) Ctx() context.Context { return context.Background() }

func (c *verifCli) Get(ctx context.Context, key string, opts ...clientv3.OpOption) (*clientv3.GetResponse, error) {
	resp := &clientv3.GetResponse{Header: &etcdserverpb.ResponseHeader{Revision: 7}}
	for _, kv := range c.kvs {
		resp.Kvs = append(resp.Kvs, &mvccpb.KeyValue{Key: []byte(kv.Key), Value: []byte(kv.Val)})
	}
	return resp, nil
}

type VerifCluster struct {
	c   *cluster
	key watchKey
}

func NewVerifCluster(ls ...UpdateListener) *VerifCluster {
	v := &VerifCluster{c: newCluster([]string{"etcd:2379"}), key: watchKey{key: "svc"}}
	for _, l := range ls {
		v.c.addListener(v.key, l)
	}
	return v
}

// Put delivers a watch PUT event (a new key, or an existing key updated to a new value).
func (v *VerifCluster) Put(k, val string) {
	v.c.handleWatchEvents(context.Background(), v.key, []*clientv3.Event{{
		Type: clientv3.EventTypePut, Kv: &mvccpb.KeyValue{Key: []byte(k), Value: []byte(val)}}})
}

// Delete delivers a watch DELETE event; as with etcd, the event carries the key only.
func (v *VerifCluster) Delete(k string) {
	v.c.handleWatchEvents(context.Background(), v.key, []*clientv3.Event{{
		Type: clientv3.EventTypeDelete, Kv: &mvccpb.KeyValue{Key: []byte(k)}}})
}

// Reload performs the full reload done after a reconnect or compaction: Get + handleChanges.
func (v *VerifCluster) Reload(kvs []KV) int64 {
	return v.c.load(&verifCli{kvs: kvs}, v.key)
}

// Registry returns the cluster's own copy of the registrations.
func (v *VerifCluster) Registry() map[string]string { return v.c.watchers[v.key].values }
