//verif:pkg zrpc/resolver/internal
package internal

// C13 — the gRPC resolver publishes all addresses when there are at most subsetSize (32) of them:
// subset() returns a permutation of its input (rand.Shuffle = arbitrary swaps, engine stub).

import (
	rt "github.com/zeromicro/go-zero/internal/verifrt"
)

//verif:entry native tier=quick,thorough cover=perm
//verif:doc subset(vals, 32) for 0..4 values (atoms) with every outcome of rand.Shuffle: the result is a permutation of the input; and subset(vals, n) for n below len returns n of the input values without duplicates.
func Verif_C13_Subset() {
	n := rt.Choose("n", 5)
	var in []string
	for i := 0; i < n; i++ {
		in = append(in, rt.Atom("addr"))
	}
	orig := append([]string(nil), in...)
	rt.Assert(subsetSize == 32, "the resolver's subset size is 32")
	limit := subsetSize
	if rt.Choose("small", 2) == 1 {
		limit = 2
	}
	out := subset(in, limit)
	want := n
	if want > limit {
		want = limit
	}
	rt.Cover("perm")
	rt.Assert(len(out) == want, "subset returns min(len, sub) values: all of them when there are at most 32")
	used := make([]bool, n)
	for _, x := range out {
		found := false
		for j, y := range orig {
			if !used[j] && x == y && !found {
				used[j], found = true, true
			}
		}
		rt.Assert(found, "subset returns a sub-multiset of its input (a permutation when nothing is cut)")
	}
}
