//verif:pkg zrpc/resolver/internal/kube
package kube

// C13 — the Kubernetes endpoints handler always publishes exactly the current endpoint addresses.
// Real code executed: EventHandler.{OnAdd,OnDelete,OnUpdate,Update,notify}, diff.

import (
	rt "github.com/zeromicro/go-zero/internal/verifrt"
	v1 "k8s.io/api/core/v1"
)

func c13Endpoints(n int, version string) *v1.Endpoints {
	ep := &v1.Endpoints{}
	ep.ResourceVersion = version
	if n > 0 {
		sub := v1.EndpointSubset{}
		for i := 0; i < n; i++ {
			sub.Addresses = append(sub.Addresses, v1.EndpointAddress{IP: rt.Atom("ip")})
		}
		ep.Subsets = append(ep.Subsets, sub)
	}
	return ep
}

func c13Has(set []string, x string) bool {
	for _, y := range set {
		if y == x {
			return true
		}
	}
	return false
}

//verif:entry native tier=quick,thorough maporder=perm cover=add,delete,update,sameversion,nochange
//verif:doc Kubernetes handler: 2 (quick) / 3 (thorough) events Add / Delete / Update, each carrying 0..2 addresses (atoms: equal or different, solver-chosen); after every event the last published slice equals the current address set (as a set, no duplicates), and nothing is published when the set did not change; Update with an equal ResourceVersion publishes nothing, Update with a different one (sorting before or after the old one: versions are opaque) is applied.
func Verif_C13_Kube() {
	var published []string
	pubs := 0
	h := NewEventHandler(func(addrs []string) {
		published = append([]string(nil), addrs...)
		pubs++
	})
	var cur []string // ghost: current address set
	steps := 2
	if rt.Tier() > 0 {
		steps = 3
	}
	for s := 0; s < steps; s++ {
		before := pubs
		old := append([]string(nil), cur...)
		ep := c13Endpoints(rt.Choose("addresses", 3), "v2")
		var ips []string
		for _, sub := range ep.Subsets {
			for _, a := range sub.Addresses {
				ips = append(ips, a.IP)
			}
		}
		switch rt.Choose("event", 4) {
		case 0:
			rt.Cover("add")
			h.OnAdd(ep, false)
			for _, ip := range ips {
				if !c13Has(cur, ip) {
					cur = append(cur, ip)
				}
			}
		case 1:
			rt.Cover("delete")
			h.OnDelete(ep)
			var nw []string
			for _, x := range cur {
				if !c13Has(ips, x) {
					nw = append(nw, x)
				}
			}
			cur = nw
		case 2:
			rt.Cover("update")
			// resource versions are opaque: only (in)equality may matter, whichever way they sort
			h.OnUpdate(c13Endpoints(0, []string{"v1", "v3", "10"}[rt.Choose("oldVersion", 3)]), ep)
			cur = nil
			for _, ip := range ips {
				if !c13Has(cur, ip) {
					cur = append(cur, ip)
				}
			}
		case 3:
			rt.Cover("sameversion")
			h.OnUpdate(c13Endpoints(0, "v2"), ep)
			rt.Assert(pubs == before, "an update with an unchanged ResourceVersion publishes nothing")
		}
		changed := len(old) != len(cur)
		for _, x := range old {
			if !c13Has(cur, x) {
				changed = true
			}
		}
		if changed {
			rt.Assert(pubs == before+1, "every change of the address set is published exactly once")
		} else {
			rt.Cover("nochange")
			rt.Assert(pubs == before, "nothing is published when the address set did not change")
		}
		if pubs > 0 {
			rt.Assert(len(published) == len(cur), "the published slice has exactly the current addresses")
			for i, x := range published {
				rt.Assert(c13Has(cur, x), "only current addresses are published")
				for j := 0; j < i; j++ {
					rt.Assert(published[j] != x, "no address is published twice")
				}
			}
		} else {
			rt.Assert(len(cur) == 0, "nothing published yet means no addresses yet")
		}
	}
}
