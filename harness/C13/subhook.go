//verif:pkg core/discov
package discov

// C13 — hook for the resolver-level harness: the registry's Monitor call of a Subscriber is intercepted
// and the listener it registers (the subscriber's container) is kept, so that the harness in
// zrpc/resolver/internal can deliver registry events to a real Subscriber without an etcd client.

import "github.com/zeromicro/go-zero/core/discov/internal"

var c13Listener internal.UpdateListener

func c13Monitor(r *internal.Registry, endpoints []string, key string, exactMatch bool, l internal.UpdateListener) error {
	c13Listener = l
	return nil
}

//verif:stub (*github.com/zeromicro/go-zero/core/discov/internal.Registry).Monitor c13Monitor

// VerifPut / VerifDelete deliver one registry event to the last Subscriber created.
func VerifPut(key, val string)    { c13Listener.OnAdd(internal.KV{Key: key, Val: val}) }
func VerifDelete(key, val string) { c13Listener.OnDelete(internal.KV{Key: key, Val: val}) }
