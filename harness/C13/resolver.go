//verif:pkg zrpc/resolver/internal
package internal

// C13 — the discov resolver (discovbuilder.go): what gRPC is told after every registry event equals the
// subscriber's current view.

import (
	"net/url"

	"github.com/zeromicro/go-zero/core/discov"
	rt "github.com/zeromicro/go-zero/internal/verifrt"
	"google.golang.org/grpc/resolver"
)

type c13Conn struct {
	resolver.ClientConn
	last    []string
	updates int
}

func (c *c13Conn) UpdateState(s resolver.State) error {
	c.updates++
	c.last = nil
	for _, a := range s.Addresses {
		c.last = append(c.last, a.Addr)
	}
	return nil
}

//verif:entry tier=quick,thorough steps=3000000 cover=emptied,grown,initial
//verif:doc discov resolver: a real Subscriber (registry Monitor intercepted) behind discovBuilder.Build; 3 (thorough 4) registry events, each symbolically put k1=a / put k2=b / put k2=a / delete k1 / delete k2: after Build and after every event the address list last handed to gRPC equals the subscriber's Values() as a set - including the empty list when the last registration goes away.
func Verif_C13_Resolver() {
	cc := &c13Conn{}
	b := &discovBuilder{}
	target := resolver.Target{URL: url.URL{Scheme: "discov", Host: "etcd1:2379", Path: "/svc.key"}}
	r, err := b.Build(target, cc, resolver.BuildOptions{})
	rt.Assert(err == nil && r != nil, "the resolver is built")
	rt.Cover("initial")
	rt.Assert(cc.updates >= 1 && len(cc.last) == 0, "an initial (empty) state is published")
	sub := r.(*discovResolver).sub
	reg := map[string]string{} // ghost registry
	steps := 3
	if rt.Tier() > 0 {
		steps = 4
	}
	for i := 0; i < steps; i++ {
		switch rt.Choose("event", 5) {
		case 0:
			discov.VerifPut("k1", "a")
			reg["k1"] = "a"
		case 1:
			discov.VerifPut("k2", "b")
			reg["k2"] = "b"
		case 2:
			discov.VerifPut("k2", "a")
			reg["k2"] = "a"
		case 3:
			if v, ok := reg["k1"]; ok {
				discov.VerifDelete("k1", v)
				delete(reg, "k1")
			}
		case 4:
			if v, ok := reg["k2"]; ok {
				discov.VerifDelete("k2", v)
				delete(reg, "k2")
			}
		}
		vals := sub.Values()
		want := map[string]bool{}
		for _, v := range reg {
			want[v] = true
		}
		rt.Assert(len(vals) == len(want), "the subscriber's view has one entry per registered value")
		rt.Assert(len(cc.last) == len(vals), "the address list handed to gRPC has the size of the current view")
		for _, v := range vals {
			rt.Assert(want[v], "the view holds only registered values")
			found := false
			for _, a := range cc.last {
				if a == v {
					found = true
				}
			}
			rt.Assert(found, "every value of the current view is in the address list last handed to gRPC")
		}
		if len(vals) == 0 && i > 0 {
			rt.Cover("emptied")
		}
		if len(vals) == 2 {
			rt.Cover("grown")
		}
	}
}
