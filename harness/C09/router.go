//verif:pkg rest/router
package router

// C09 — HTTP router dispatches every request to the right route with the right variables
// (DESIGN §4 C09). Real code executed: patRouter.{Handle,ServeHTTP,methodsAllowed,handleNotFound},
// validMethod, search.Tree.{Add,Search,next}, node.forEach/getChildren, add, match, addParam,
// pathvar.{WithVars,Vars}, path.Clean, http.NotFound.
// H1: route tables are concrete; the request path is built from 0..3 segments of 1..2 arbitrary
// ASCII bytes each (no '/', not "." or ".."), so literal/variable/sibling coincidences are chosen by
// the solver. H2: concrete dirty spellings of witness paths (cleaning is path.Clean's job; the router
// must apply it at registration and at lookup). Map iteration order is a decision.

import (
	"net/http"
	"net/url"
	"path"
	"strings"

	"github.com/zeromicro/go-zero/rest/pathvar"
	rt "github.com/zeromicro/go-zero/internal/verifrt"
)

type c09Route struct{ method, pat string }

var c09Tables = [][]c09Route{
	{{"GET", "/a"}, {"GET", "/:v0"}, {"POST", "/a"}},
	{{"GET", "/a/b"}, {"GET", "/a/:v1"}, {"GET", "/:v0/b"}},
	{{"GET", "/a/:v1/b"}, {"GET", "/:v0/b/a"}, {"PUT", "/a/b/:v2"}},
	{{"GET", "/"}, {"POST", "/:v0"}, {"PUT", "/a/b"}},
	{{"GET", "/:v0"}, {"GET", "/:v0/:v1"}, {"POST", "/:v0/b"}},
	{{"GET", "/ab"}, {"GET", "/a"}, {"POST", "/a/b"}},
	{{"GET", "/a/b/:v2"}, {"PUT", "/a/b/:v2"}, {"DELETE", "/a/:v1"}},
	{{"GET", "/api/:v1/users"}, {"GET", "/:v0/v1/items"}, {"POST", "/api/v1/items"}},
	{{"GET", "/a/b"}, {"POST", "/a/b"}, {"PUT", "/a/:v1"}},
	{{"GET", "/:v0/:v1/:v2"}, {"GET", "/a/:v1/c"}, {"GET", "/a/b/:v2"}},
	// one route a segment-wise proper prefix of another, registered after / before the longer one
	{{"GET", "/a/:v1/b"}, {"GET", "/a/:v1"}, {"GET", "/a"}},
	{{"GET", "/a"}, {"GET", "/a/b"}, {"GET", "/a/b/:v2"}},
}

type c09Writer struct {
	code   int
	header http.Header
	body   []byte
}

func (w *c09Writer) Header() http.Header         { return w.header }
func (w *c09Writer) Write(b []byte) (int, error) { w.body = append(w.body, b...); return len(b), nil }
func (w *c09Writer) WriteHeader(code int) {
	if w.code == 0 {
		w.code = code
	}
}

type c09World struct {
	routes []c09Route
	r      *patRouter
	ran    []int
	vars   map[string]string
}

func c09Build(routes []c09Route) *c09World {
	w := &c09World{routes: routes, r: NewRouter().(*patRouter)}
	for i, rt0 := range routes {
		i := i
		err := w.r.Handle(rt0.method, rt0.pat, http.HandlerFunc(func(_ http.ResponseWriter, req *http.Request) {
			w.ran = append(w.ran, i)
			w.vars = pathvar.Vars(req)
		}))
		rt.Assert(err == nil, "a well-formed, new (method, pattern) pair is accepted at registration")
	}
	return w
}

func c09Segs(p string) []string { return strings.Split(p[1:], "/") } // "/" -> [""]

// c09Ref: the reference matcher. Among the routes of one method, depth-first over the request
// segments, a literal segment equal to the request's is preferred over a variable at the first
// position where candidates differ (with backtracking); returns the chosen route and its bindings.
func c09Ref(routes []c09Route, method string, segs []string) (int, map[string]string) {
	var cands []int
	for i, r := range routes {
		if r.method == method && len(c09Segs(r.pat)) == len(segs) {
			cands = append(cands, i)
		}
	}
	return c09RefAt(routes, cands, segs, 0)
}

func c09RefAt(routes []c09Route, cands []int, segs []string, d int) (int, map[string]string) {
	if len(cands) == 0 {
		return -1, nil
	}
	if d == len(segs) {
		return cands[0], map[string]string{}
	}
	var lits, vars []int
	for _, i := range cands {
		ps := c09Segs(routes[i].pat)[d]
		if len(ps) > 0 && ps[0] == ':' {
			vars = append(vars, i)
		} else if ps == segs[d] {
			lits = append(lits, i)
		}
	}
	if i, b := c09RefAt(routes, lits, segs, d+1); i >= 0 {
		return i, b
	}
	if i, b := c09RefAt(routes, vars, segs, d+1); i >= 0 {
		name := c09Segs(routes[i].pat)[d][1:]
		b[name] = segs[d]
		return i, b
	}
	return -1, nil
}

// c09Check sends one request and compares the outcome with the reference.
func c09Check(w *c09World, method, reqPath string, segs []string) {
	w.ran, w.vars = nil, nil
	rec := &c09Writer{header: http.Header{}}
	w.r.ServeHTTP(rec, &http.Request{Method: method, URL: &url.URL{Path: reqPath}})
	want, binds := c09Ref(w.routes, method, segs)
	if want >= 0 {
		rt.Cover("dispatched")
		rt.Assert(len(w.ran) == 1 && w.ran[0] == want, "the request is dispatched to the matching route that prefers a literal over a variable at the first differing segment")
		rt.Assert(len(w.vars) == len(binds), "the handler sees exactly the variables bound by the chosen route")
		for k, v := range binds {
			got, ok := w.vars[k]
			rt.Assert(ok && got == v, "each path variable is bound to the corresponding request segment")
			if ok {
				rt.Cover("vars")
			}
		}
		return
	}
	rt.Assert(len(w.ran) == 0, "no handler runs when no route of the request's method matches")
	var others []string
	for _, m := range []string{"GET", "POST", "PUT", "DELETE"} {
		if m == method {
			continue
		}
		if i, _ := c09Ref(w.routes, m, segs); i >= 0 {
			others = append(others, m)
		}
	}
	if len(others) == 0 {
		rt.Cover("notfound")
		rt.Assert(rec.code == http.StatusNotFound, "404 when no method has a matching route")
		return
	}
	rt.Cover("notallowed")
	rt.Assert(rec.code == http.StatusMethodNotAllowed, "405 when only other methods have a matching route")
	got := strings.Split(rec.header.Get("Allow"), ", ")
	rt.Assert(len(got) == len(others), "the Allow header lists exactly the other methods that have a matching route")
	for _, m := range others {
		found := false
		for _, g := range got {
			if g == m {
				found = true
			}
		}
		rt.Assert(found, "every other method with a matching route is listed in Allow")
	}
}

// c09Segment draws one request segment of 1..2 arbitrary ASCII bytes that is not "." or ".." and contains no '/'.
func c09Segment() string {
	n := rt.Choose("segLen", 2) + 1
	b := rt.Bytes("seg", n)
	for _, c := range b {
		rt.Assume(c < 0x80 && c != '/')
	}
	if n == 1 {
		rt.Assume(b[0] != '.')
	} else {
		rt.Assume(!(b[0] == '.' && b[1] == '.'))
	}
	return string(b)
}

//verif:entry native tier=quick,thorough maporder=perm steps=3000000 cover=dispatched,vars,notfound,notallowed
//verif:doc H1: 12 route tables (3 routes each: literal/variable siblings, shared prefixes, proper prefixes registered before and after the longer route, backtracking, several methods) x request of 0..3 (quick) / 0..4 (thorough) segments of 1..2 symbolic ASCII bytes (any byte but '/', never "." or "..") x method GET/POST/PUT; the root path is the 0-segment case; map iteration order is a decision.
func Verif_C09_Dispatch() {
	w := c09Build(c09Tables[rt.Choose("table", len(c09Tables))])
	maxSegs := 3
	if rt.Tier() > 0 {
		maxSegs = 4
	}
	n := rt.Choose("segments", maxSegs+1)
	method := []string{"GET", "POST", "PUT"}[rt.Choose("method", 3)]
	p := ""
	var segs []string
	for i := 0; i < n; i++ {
		s := c09Segment()
		segs = append(segs, s)
		p += "/" + s
	}
	if n == 0 {
		p, segs = "/", []string{""}
	}
	c09Check(w, method, p, segs)
}

var c09Witness = []string{"/", "/a", "/b", "/a/b", "/a/c", "/x/b", "/a/b/c", "/a/x/b", "/x/b/a", "/api/v1/items", "/api/v2/users", "/ab"}

func c09Dirty(p string, kind int) string {
	switch kind {
	case 0:
		return p
	case 1:
		return p + "/"
	case 2:
		return strings.Replace(p, "/", "//", 1)
	case 3:
		return "/." + p
	case 4:
		return "/zz/.." + p
	case 5:
		return p + "/."
	case 6:
		return p + "/zz/.."
	}
	return p[1:] // missing leading slash (also the empty path for "/")
}

//verif:entry native tier=quick,thorough maporder=perm steps=3000000 cover=dispatched,notfound,notallowed
//verif:doc H2: the same tables x 12 concrete witness paths x 8 dirty spellings (trailing slash, doubled slash, /./, /x/../, trailing /. and /x/.., missing leading slash) x 3 methods: the outcome equals the reference on path.Clean of the request path.
func Verif_C09_Dirty() {
	w := c09Build(c09Tables[rt.Choose("table", len(c09Tables))])
	method := []string{"GET", "POST", "PUT"}[rt.Choose("method", 3)]
	wp := c09Witness[rt.Choose("witness", len(c09Witness))]
	req := c09Dirty(wp, rt.Choose("dirt", 8))
	cleaned := path.Clean(req)
	if len(cleaned) == 0 || cleaned[0] != '/' {
		// a path that does not start with '/' matches nothing
		w.ran = nil
		rec := &c09Writer{header: http.Header{}}
		w.r.ServeHTTP(rec, &http.Request{Method: method, URL: &url.URL{Path: req}})
		rt.Assert(len(w.ran) == 0 && rec.code == http.StatusNotFound, "a request path not starting with '/' is not found")
		return
	}
	c09Check(w, method, req, c09Segs(cleaned))
}

//verif:entry native tier=quick,thorough cover=dup,badmethod,badpath,dirtydup
//verif:doc Registration: the same (method, pattern) twice (also via a dirty spelling of the same pattern), an unsupported method, and a pattern not starting with '/' are rejected; everything else is accepted.
func Verif_C09_Register() {
	r := NewRouter().(*patRouter)
	h := http.HandlerFunc(func(http.ResponseWriter, *http.Request) {})
	pats := []string{"/", "/a", "/a/:v1", "/:v0/b", "/a/b/:v2"}
	p := pats[rt.Choose("pattern", len(pats))]
	methods := []string{http.MethodGet, http.MethodPost, http.MethodPut, http.MethodDelete, http.MethodPatch, http.MethodHead, http.MethodOptions}
	m := methods[rt.Choose("method", len(methods))]
	rt.Assert(r.Handle(m, p, h) == nil, "every supported method and rooted pattern is accepted")
	switch rt.Choose("second", 5) {
	case 0:
		rt.Cover("dup")
		rt.Assert(r.Handle(m, p, h) != nil, "registering the same method and pattern twice is rejected")
	case 1:
		rt.Cover("dirtydup")
		rt.Assert(r.Handle(m, p+"/", h) != nil && r.Handle(m, "/."+p, h) != nil, "a dirty spelling of an already registered pattern is the same pattern")
	case 2:
		rt.Cover("badmethod")
		bad := []string{"", "get", "TRACE", "CONNECT", "FETCH"}[rt.Choose("bad", 5)]
		rt.Assert(r.Handle(bad, "/new", h) == ErrInvalidMethod, "an unsupported method is rejected")
	case 3:
		rt.Cover("badpath")
		bad := []string{"", "a", "a/b", ":v0"}[rt.Choose("bad", 4)]
		rt.Assert(r.Handle(m, bad, h) == ErrInvalidPath, "a pattern not starting with '/' is rejected")
	case 4:
		other := methods[(rt.Choose("method2", len(methods)-1)+1+indexOf(methods, m))%len(methods)]
		rt.Assert(r.Handle(other, p, h) == nil, "the same pattern under another method is a different route")
	}
}

func indexOf(xs []string, x string) int {
	for i, y := range xs {
		if y == x {
			return i
		}
	}
	return 0
}
