//verif:pkg rest/handler
package handler

// C04 — REST timeout middleware: deadlines only shrink, outcomes are all-or-nothing (DESIGN §4 C04).
// Real code executed: TimeoutHandler, timeoutHandler.ServeHTTP, timeoutWriter.{Header,Write,
// WriteHeader,writeHeaderLocked}, httpx.ErrorCtx, the context package (from source) with the deadline
// timer as an environment event of the engine scheduler.

import (
	"context"
	"net/http"
	"time"

	rt "github.com/zeromicro/go-zero/internal/verifrt"
)

//verif:stub github.com/zeromicro/go-zero/rest/internal.Errorf c04Errorf
func c04Errorf(r *http.Request, format string, v ...any) {}

type c04Writer struct {
	code     int
	header   http.Header
	body     []byte
	writes   int
}

func (w *c04Writer) Header() http.Header { return w.header }
func (w *c04Writer) Write(b []byte) (int, error) {
	if w.code == 0 {
		w.code = http.StatusOK
	}
	w.writes++
	w.body = append(w.body, b...)
	return len(b), nil
}
func (w *c04Writer) WriteHeader(code int) {
	if w.code == 0 {
		w.code = code
	}
}

type c04Op struct {
	kind  int // 0 header, 1 status, 2 body chunk
	code  int
	chunk []byte
}

func c04BytesEq(a, b []byte) bool {
	if len(a) != len(b) {
		return false
	}
	for i := range a {
		if a[i] != b[i] {
			return false
		}
	}
	return true
}

//verif:entry tier=quick,thorough steps=3000000 preempt=1 cover=completed,timedout,cancelled,panicked,blocked,lateWrite
//verif:doc REST TimeoutHandler: timeout 1 s, caller context optionally cancelled at an arbitrary point or carrying an earlier (0.5 s) or later (2 s) deadline; the handler performs 1 (quick; plus the fixed sequence Write then WriteHeader) / 2 (thorough) operations chosen symbolically from Header().Set, WriteHeader(symbolic code 100..599), Write(2 symbolic bytes), yielding in between, then returns, panics or blocks forever ignoring the context; the deadline timer fires at any scheduling point; all interleavings at lock/channel granularity.
func Verif_C04_Rest() {
	dt := int64(time.Second) // the interleaving (the timer fires at any scheduling point) is what matters here; symbolic durations are in Verif_C04_Deadline
	nops := 1
	if rt.Tier() > 0 {
		nops = 2
	}
	ops := make([]c04Op, nops)
	for i := range ops {
		ops[i].kind = rt.Choose("op", 3)
		switch ops[i].kind {
		case 1:
			ops[i].code = int(rt.Int("status", 100, 599))
		case 2:
			ops[i].chunk = rt.Bytes("chunk", 2)
		}
	}
	if rt.Tier() == 0 && rt.Choose("bodyThenStatus", 2) == 1 {
		// quick: one fixed two-step sequence - a body write commits status 200, a later WriteHeader is ignored
		ops = []c04Op{{kind: 2, chunk: rt.Bytes("chunk", 2)}, {kind: 1, code: int(rt.Int("status", 100, 599))}}
	}
	ending := rt.Choose("ending", 3) // 0 return, 1 panic, 2 block forever
	never := make(chan struct{})
	start := rt.Now()
	// what the work believes it produced
	wantCode, wantBody, wantHdr := 0, []byte(nil), false
	var lateErrs []error
	sawDeadline := int64(0)
	finished := false
	inner := http.HandlerFunc(func(w http.ResponseWriter, r *http.Request) {
		if dl, ok := r.Context().Deadline(); ok {
			sawDeadline = dl.UnixNano()
		}
		for _, op := range ops {
			switch op.kind {
			case 0:
				w.Header().Set("X-Work", "1")
				wantHdr = true
			case 1:
				w.WriteHeader(op.code)
				if wantCode == 0 {
					wantCode = op.code
				}
			case 2:
				_, err := w.Write(op.chunk)
				if err != nil {
					lateErrs = append(lateErrs, err)
				} else {
					if wantCode == 0 {
						wantCode = http.StatusOK
					}
					wantBody = append(wantBody, op.chunk...)
				}
			}
			rt.Yield()
		}
		switch ending {
		case 1:
			panic("c04: work failed")
		case 2:
			rt.Cover("blocked")
			<-never
		}
		finished = true
	})
	h := TimeoutHandler(time.Duration(dt))(inner)
	parent := context.Background()
	callerKind := rt.Choose("caller", 3) // 0 plain, 1 cancels at an arbitrary point, 2 has its own earlier/later deadline
	var callerDeadline int64
	switch callerKind {
	case 1:
		c, cancel := context.WithCancel(parent)
		parent = c
		go func() {
			rt.Yield()
			cancel()
		}()
	case 2:
		cd := []int64{int64(time.Second) / 2, 2 * int64(time.Second)}[rt.Choose("callerTimeout", 2)]
		callerDeadline = start + cd
		c, cancel := context.WithTimeout(parent, time.Duration(cd))
		defer cancel()
		parent = c
	}
	rec := &c04Writer{header: http.Header{}}
	req := (&http.Request{Method: "GET", Header: http.Header{}}).WithContext(parent)
	var panicked any
	func() {
		defer func() { panicked = recover() }()
		h.ServeHTTP(rec, req)
	}()
	returnedAt := rt.Now()
	// snapshot of what the client has received when the wrapper returned
	code, body := rec.code, append([]byte(nil), rec.body...)
	hdr := rec.header.Get("X-Work") != ""
	// let the work run on (unless it blocks forever): nothing it does now may reach the client
	rt.WaitIdle()
	rt.Assert(rec.code == code && c04BytesEq(rec.body, body) && (rec.header.Get("X-Work") != "") == hdr, "nothing the work writes after the wrapper has returned reaches the client")

	// (a) deadlines only shrink
	if sawDeadline != 0 {
		rt.Assert(sawDeadline <= start+dt, "the work's context deadline is no later than now+timeout")
		if callerKind == 2 {
			rt.Assert(sawDeadline <= callerDeadline, "the work's context deadline is no later than the caller's deadline")
		}
	}
	// (b) the wrapper does not wait for work that ignores the deadline: with the work blocked forever the
	// wrapper still returned (a wrapper waiting for the work would be reported as a deadlock by the
	// engine), and what it delivered is the timeout result
	if ending == 2 {
		rt.Assert(panicked == nil && (code == http.StatusServiceUnavailable || code == 499), "with work that never returns the wrapper returns the timeout result at the deadline")
	}
	_ = returnedAt
	// (c) all-or-nothing
	isTimeoutBody := c04BytesEq(body, []byte("Request Timeout"))
	switch {
	case panicked != nil:
		rt.Cover("panicked")
		rt.Assert(ending == 1 && panicked == any("c04: work failed"), "a panic of the work is re-raised in the caller's goroutine with the same value")
		rt.Assert(code == 0 && len(body) == 0, "a panicking work leaves nothing half-written")
	case (code == http.StatusServiceUnavailable || code == 499) && isTimeoutBody && !(finished && wantCode == code && c04BytesEq(wantBody, body)):
		if code == 499 {
			rt.Cover("cancelled")
			rt.Assert(callerKind == 1, "499 only when the caller went away")
		} else {
			rt.Cover("timedout")
		}
		rt.Assert(!hdr, "the timeout response carries none of the work's headers")
		for _, e := range lateErrs {
			rt.Cover("lateWrite")
			rt.Assert(e == http.ErrHandlerTimeout, "writes after the timeout report ErrHandlerTimeout")
		}
	default:
		rt.Cover("completed")
		rt.Assert(ending == 0 && finished, "a complete work result is delivered only after the work has returned")
		want := wantCode
		if want == 0 {
			want = http.StatusOK
		}
		if len(wantBody) == 0 && wantCode == 0 {
			// nothing written: net/http would send 200 with an empty body; the wrapper issues an empty Write
			rt.Assert(code == 0 || code == http.StatusOK, "an empty result is delivered as an implicit 200")
		} else {
			rt.Assert(code == want, "the client sees exactly the work's status")
		}
		rt.Assert(c04BytesEq(body, wantBody), "the client sees exactly the work's whole body")
		rt.Assert(hdr == wantHdr, "the client sees exactly the work's headers")
		rt.Assert(len(lateErrs) == 0, "no write of a completed work was refused")
	}
}

//verif:entry tier=quick,thorough cover=websocket,sse,disabled
//verif:doc Exemptions: requests with Upgrade: websocket or Accept: text/event-stream reach the inner handler with the original writer and the caller's context; a non-positive duration installs no wrapper at all.
func Verif_C04_RestExempt() {
	var gotW http.ResponseWriter
	var gotCtx context.Context
	inner := http.HandlerFunc(func(w http.ResponseWriter, r *http.Request) { gotW, gotCtx = w, r.Context() })
	rec := &c04Writer{header: http.Header{}}
	ctx := context.WithValue(context.Background(), "who", "caller")
	req := (&http.Request{Method: "GET", Header: http.Header{}}).WithContext(ctx)
	switch rt.Choose("case", 3) {
	case 0:
		rt.Cover("websocket")
		req.Header.Set("Upgrade", "websocket")
		TimeoutHandler(time.Duration(rt.Int("timeout_ns", 1, 1<<40)))(inner).ServeHTTP(rec, req)
	case 1:
		rt.Cover("sse")
		req.Header.Set("Accept", "text/event-stream")
		TimeoutHandler(time.Duration(rt.Int("timeout_ns", 1, 1<<40)))(inner).ServeHTTP(rec, req)
	case 2:
		rt.Cover("disabled")
		TimeoutHandler(time.Duration(rt.Int("timeout_ns", -(1 << 40), 0)))(inner).ServeHTTP(rec, req)
	}
	rt.Assert(gotW == http.ResponseWriter(rec), "exempt requests write to the original ResponseWriter")
	rt.Assert(gotCtx == ctx, "exempt requests keep the caller's context (no deadline added)")
}
