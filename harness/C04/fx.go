//verif:pkg core/fx
package fx

// C04 — fx.DoWithTimeout: fn's error or the context error, never waiting for fn past the deadline.

import (
	"context"
	"errors"
	"time"

	rt "github.com/zeromicro/go-zero/internal/verifrt"
)

var c04ErrFn = errors.New("c04: fn error")

//verif:entry tier=quick,thorough steps=3000000 preempt=1 cover=completed,timeout,canceled,panicked,blocked
//verif:doc fx.DoWithTimeout: timeout 1 s, optional parent context (cancelled at an arbitrary point, or with a 0.25 s / 2 s deadline); fn yields then returns nil, an error, panics or blocks forever; timers fire at any scheduling point; schedules with at most 1 preemption.
func Verif_C04_Fx() {
	var opts []DoOption
	callerKind := rt.Choose("caller", 3)
	switch callerKind {
	case 1:
		c, cancel := context.WithCancel(context.Background())
		opts = append(opts, WithContext(c))
		go func() {
			rt.Yield()
			cancel()
		}()
	case 2:
		cd := []time.Duration{time.Second / 4, 2 * time.Second}[rt.Choose("callerTimeout", 2)]
		c, cancel := context.WithTimeout(context.Background(), cd)
		defer cancel()
		opts = append(opts, WithContext(c))
	}
	ending := rt.Choose("ending", 4)
	never := make(chan struct{})
	var err error
	var panicked any
	func() {
		defer func() { panicked = recover() }()
		err = DoWithTimeout(func() error {
			rt.Yield()
			switch ending {
			case 1:
				return c04ErrFn
			case 2:
				panic("c04: fn failed")
			case 3:
				rt.Cover("blocked")
				<-never
			}
			return nil
		}, time.Second, opts...)
	}()
	switch {
	case panicked != nil:
		rt.Cover("panicked")
		rt.Assert(ending == 2, "only fn's panic is re-raised")
	case err == ErrTimeout:
		rt.Cover("timeout")
	case err == ErrCanceled:
		rt.Cover("canceled")
		rt.Assert(callerKind == 1, "Canceled only when the parent context was cancelled")
	default:
		rt.Cover("completed")
		rt.Assert((ending == 0 && err == nil) || (ending == 1 && err == c04ErrFn), "fn's own result is returned unchanged, and only if fn returned")
	}
	if ending == 3 {
		rt.Assert(panicked == nil && (err == ErrTimeout || err == ErrCanceled), "with fn that never returns DoWithTimeout returns the context error at the deadline")
	}
}
