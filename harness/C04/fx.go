//verif:pkg core/fx
package fx

// C04 — fx.DoWithTimeout: fn's error or the context error, never waiting for fn past the deadline.

import (
	"context"
	"errors"
	"time"

	rt "github.com/zeromicro/go-zero/internal/verifrt"
)

var c04ErrFn = errors.New("c04: fn error")

type c04LateCtx struct {
	deadline time.Time
	done     chan struct{}
}

func (c *c04LateCtx) Deadline() (time.Time, bool) { return c.deadline, true }
func (c *c04LateCtx) Done() <-chan struct{}       { return c.done }
func (c *c04LateCtx) Err() error                  { return nil }
func (c *c04LateCtx) Value(key any) any           { return nil }

//verif:entry tier=quick,thorough steps=3000000 preempt=1 cover=completed,timeout,canceled,panicked,blocked,latedeadline
//verif:doc fx.DoWithTimeout: timeout 1 s, optional parent context (cancelled at an arbitrary point, with a 0.25 s / 2 s deadline, or one that only announces a 2 s deadline and never ends by itself); fn yields then returns nil, an error, panics or blocks forever; timers fire at any scheduling point; schedules with at most 1 preemption.
func Verif_C04_Fx() {
	var opts []DoOption
	callerKind := rt.Choose("caller", 4)
	switch callerKind {
	case 3:
		// a caller context that announces a deadline later than the timeout but never ends by itself: the
		// call must still end at its own timeout (a deadlock here means the timeout was not applied)
		opts = append(opts, WithContext(&c04LateCtx{deadline: time.Now().Add(2 * time.Second), done: make(chan struct{})}))
		rt.Cover("latedeadline")
	case 1:
		c, cancel := context.WithCancel(context.Background())
		opts = append(opts, WithContext(c))
		go func() {
			rt.Yield()
			cancel()
		}()
	case 2:
		cd := []time.Duration{time.Second / 4, 2 * time.Second}[rt.Choose("callerTimeout", 2)]
		c, cancel := context.WithTimeout(context.Background(), cd)
		defer cancel()
		opts = append(opts, WithContext(c))
	}
	ending := rt.Choose("ending", 4)
	never := make(chan struct{})
	var err error
	var panicked any
	func() {
		defer func() { panicked = recover() }()
		err = DoWithTimeout(func() error {
			rt.Yield()
			switch ending {
			case 1:
				return c04ErrFn
			case 2:
				panic("c04: fn failed")
			case 3:
				rt.Cover("blocked")
				<-never
			}
			return nil
		}, time.Second, opts...)
	}()
	switch {
	case panicked != nil:
		rt.Cover("panicked")
		rt.Assert(ending == 2, "only fn's panic is re-raised")
	case err == ErrTimeout:
		rt.Cover("timeout")
	case err == ErrCanceled:
		rt.Cover("canceled")
		rt.Assert(callerKind == 1, "Canceled only when the parent context was cancelled")
	default:
		rt.Cover("completed")
		rt.Assert((ending == 0 && err == nil) || (ending == 1 && err == c04ErrFn), "fn's own result is returned unchanged, and only if fn returned")
	}
	if ending == 3 {
		rt.Assert(panicked == nil && (err == ErrTimeout || err == ErrCanceled), "with fn that never returns DoWithTimeout returns the context error at the deadline")
	}
}
