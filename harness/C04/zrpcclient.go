//verif:pkg zrpc/internal/clientinterceptors
package clientinterceptors

// C04 — zRPC client timeout interceptor: the invoker runs under a context whose deadline is no later
// than the caller's and than now + (per-call else default) timeout; non-positive timeouts pass the
// caller's context through.

import (
	"context"
	"time"

	rt "github.com/zeromicro/go-zero/internal/verifrt"
	"google.golang.org/grpc"
)

//verif:entry tier=quick,thorough preempt=1 cover=default,percall,disabled,callerEarlier
//verif:doc zRPC client interceptor: default timeout and optional per-call timeout from {-1 s, 0, 1 ns, 0.5 s, 1 s, 3 s}, caller context with an optional deadline (0.25 s or 2 s); time.Time arithmetic is kept concrete; sequential (the client wrapper does not return early by design).
func Verif_C04_ZrpcClient() {
	durs := []int64{-int64(time.Second), 0, 1, int64(time.Second) / 2, int64(time.Second), 3 * int64(time.Second)}
	def := durs[rt.Choose("default", len(durs))]
	var opts []grpc.CallOption
	eff := def
	if rt.Bool("perCall") {
		pc := durs[rt.Choose("percall", len(durs))]
		opts = append(opts, grpc.EmptyCallOption{}, WithCallTimeout(time.Duration(pc)))
		eff = pc
		rt.Cover("percall")
	} else {
		rt.Cover("default")
	}
	start := rt.Now()
	parent := context.Background()
	var callerDeadline int64
	hasCaller := rt.Bool("callerDeadline")
	if hasCaller {
		cd := []int64{int64(time.Second) / 4, 2 * int64(time.Second)}[rt.Choose("caller", 2)]
		callerDeadline = start + cd
		c, cancel := context.WithTimeout(parent, time.Duration(cd))
		defer cancel()
		parent = c
	}
	calls := 0
	invoker := func(ctx context.Context, method string, req, reply any, cc *grpc.ClientConn, o ...grpc.CallOption) error {
		calls++
		dl, ok := ctx.Deadline()
		if eff <= 0 {
			rt.Cover("disabled")
			rt.Assert(ctx == parent, "a non-positive timeout passes the caller's context through")
			return nil
		}
		rt.Assert(ok, "a positive timeout puts a deadline on the call")
		rt.Assert(dl.UnixNano() <= start+eff, "the call's deadline is no later than now + the per-call (else default) timeout")
		if hasCaller {
			rt.Assert(dl.UnixNano() <= callerDeadline, "the call's deadline is no later than the caller's")
			if callerDeadline < start+eff {
				rt.Cover("callerEarlier")
			}
		}
		return nil
	}
	err := TimeoutInterceptor(time.Duration(def))(parent, "/svc/Call", "req", nil, nil, invoker, opts...)
	rt.Assert(err == nil && calls == 1, "the invoker runs exactly once and its result is returned")
}
