//verif:pkg rest
package rest

// C04 — which timeout a REST route gets: its own when configured, otherwise the global one — never
// the maximum over other routes (that maximum only sizes the http.Server read/write timeouts).

import (
	"time"

	rt "github.com/zeromicro/go-zero/internal/verifrt"
)

//verif:entry tier=quick,thorough cover=perroute,global,widened
//verif:doc engine.checkedTimeout after addRoutes: global timeout (ms) and two route groups' timeouts symbolic in [0, 2^30]; a route with its own timeout gets exactly it, any other route gets exactly the configured global timeout, however large other routes' timeouts are.
func Verif_C04_RouteTimeout() {
	globalMs := rt.Int("global_ms", 0, 1<<30)
	ng := newEngine(RestConf{Timeout: globalMs})
	t1 := rt.Int("route1_ns", 0, 1<<50)
	t2 := rt.Int("route2_ns", 0, 1<<50)
	ng.addRoutes(featuredRoutes{timeout: time.Duration(t1)})
	ng.addRoutes(featuredRoutes{timeout: time.Duration(t2)})
	for _, fr := range ng.routes {
		got := int64(ng.checkedTimeout(fr.timeout))
		if fr.timeout > 0 {
			rt.Cover("perroute")
			rt.Assert(got == int64(fr.timeout), "a route with its own timeout runs under exactly that timeout")
		} else {
			rt.Cover("global")
			rt.Assert(got == globalMs*int64(time.Millisecond), "a route without its own timeout runs under exactly the global timeout")
			if t1 > globalMs*int64(time.Millisecond) || t2 > globalMs*int64(time.Millisecond) {
				rt.Cover("widened")
			}
		}
	}
	rt.Assert(int64(ng.timeout) >= t1 && int64(ng.timeout) >= t2 && int64(ng.timeout) >= globalMs*int64(time.Millisecond), "the server-level timeout is the maximum over all routes")
}
