//verif:pkg zrpc/internal/serverinterceptors
package serverinterceptors

// C04 — zRPC server timeout interceptor (DESIGN §4 C04): real UnaryTimeoutInterceptor,
// buildMethodTimeouts, getTimeoutByUnaryServerInfo with the context package from source.

import (
	"context"
	"errors"
	"time"

	rt "github.com/zeromicro/go-zero/internal/verifrt"
	"google.golang.org/grpc"
	"google.golang.org/grpc/codes"
	"google.golang.org/grpc/status"
)

var c04ErrWork = errors.New("c04: handler error")

//verif:entry tier=quick,thorough steps=3000000 preempt=1 cover=completed,deadline,canceled,panicked,blocked,permethod
//verif:doc zRPC server interceptor: default timeout 1 s, optional per-method timeout (0.5 s) for the called or for another method, caller context plain / cancelled at an arbitrary point / with its own deadline (0.25 s or 2 s); the handler yields, then returns (resp, nil), (nil, err), panics or blocks forever; deadline timers fire at any scheduling point; schedules with at most 1 preemption.
func Verif_C04_ZrpcServer() {
	def := time.Second
	var confs []MethodTimeoutConf
	mine := "/svc/Call"
	want := def
	switch rt.Choose("methodTimeouts", 3) {
	case 1:
		confs = append(confs, MethodTimeoutConf{FullMethod: mine, Timeout: time.Second / 2})
		want = time.Second / 2
		rt.Cover("permethod")
	case 2:
		confs = append(confs, MethodTimeoutConf{FullMethod: "/svc/Other", Timeout: time.Second / 2})
	}
	ic := UnaryTimeoutInterceptor(def, confs...)
	start := rt.Now()
	parent := context.Background()
	callerKind := rt.Choose("caller", 3)
	var callerDeadline int64
	switch callerKind {
	case 1:
		c, cancel := context.WithCancel(parent)
		parent = c
		go func() {
			rt.Yield()
			cancel()
		}()
	case 2:
		cd := []time.Duration{time.Second / 4, 2 * time.Second}[rt.Choose("callerTimeout", 2)]
		callerDeadline = start + int64(cd)
		c, cancel := context.WithTimeout(parent, cd)
		defer cancel()
		parent = c
	}
	ending := rt.Choose("ending", 4) // 0 resp, 1 error, 2 panic, 3 block forever
	never := make(chan struct{})
	sawDeadline := int64(0)
	ran := 0
	handler := func(ctx context.Context, req any) (any, error) {
		ran++
		if dl, ok := ctx.Deadline(); ok {
			sawDeadline = dl.UnixNano()
		}
		rt.Yield()
		switch ending {
		case 1:
			return nil, c04ErrWork
		case 2:
			panic("c04: handler failed")
		case 3:
			rt.Cover("blocked")
			<-never
		}
		return "resp", nil
	}
	var resp any
	var err error
	var panicked any
	func() {
		defer func() { panicked = recover() }()
		resp, err = ic(parent, "req", &grpc.UnaryServerInfo{FullMethod: mine}, handler)
	}()
	rt.Assert(ran <= 1, "the handler runs at most once")
	if sawDeadline != 0 {
		rt.Assert(sawDeadline <= start+int64(want), "the handler's deadline is no later than now + the per-method (else default) timeout")
		if callerKind == 2 {
			rt.Assert(sawDeadline <= callerDeadline, "the handler's deadline is no later than the caller's")
		}
	}
	switch {
	case panicked != nil:
		rt.Cover("panicked")
		rt.Assert(ending == 2, "only a handler panic is re-raised")
	case err != nil && status.Code(err) == codes.DeadlineExceeded:
		rt.Cover("deadline")
		rt.Assert(resp == nil, "a timeout result carries no response")
	case err != nil && status.Code(err) == codes.Canceled:
		rt.Cover("canceled")
		rt.Assert(resp == nil && callerKind == 1, "Canceled only when the caller went away, without a response")
	default:
		rt.Cover("completed")
		rt.Assert(ending == 0 || ending == 1, "a handler result is returned only if the handler returned")
		if ending == 0 {
			rt.Assert(resp == any("resp") && err == nil, "the handler's complete result is returned")
		} else {
			rt.Assert(resp == nil && err == c04ErrWork, "the handler's error is returned unchanged")
		}
	}
	if ending == 3 {
		rt.Assert(panicked == nil && err != nil && (status.Code(err) == codes.DeadlineExceeded || status.Code(err) == codes.Canceled), "with a handler that never returns the interceptor returns the timeout result at the deadline")
	}
}
