//verif:pkg core/hash
package hash

// C15 — consistent hashing: deterministic, member-only, minimally disruptive (DESIGN §4 C15).
// Real code executed: AddWithReplicas / AddWithWeight / Add / Get / Remove / removeRingNode.
// The hash function is uninterpreted: one fresh symbolic uint64 per distinct input string, so the
// positions of all virtual nodes and of the probe key, and their order on the ring, are chosen by
// the solver. The ring is built directly with 1..2 replicas (the constructor forces >= 100 virtual
// nodes per node, which only multiplies identical loop iterations).

import (
	"github.com/zeromicro/go-zero/core/lang"
	rt "github.com/zeromicro/go-zero/internal/verifrt"
)

// lang.Repr is identity on strings (numbers / Stringers are outside the claim)
// node identities are strings in the three relational entries: lang.Repr is the identity there (stubbed
// per entry); Verif_C15_NodeIdentity runs the real lang.Repr on other node types
func c15Repr(v any) string { return v.(string) }

type c15Hash struct {
	memo     map[string]uint64
	order    []string
	distinct bool
}

func (h *c15Hash) fn(data []byte) uint64 {
	s := string(data)
	if v, ok := h.memo[s]; ok {
		return v
	}
	v := rt.Uint64("hash")
	if h.distinct {
		for _, o := range h.order {
			rt.Assume(h.memo[o] != v)
		}
	}
	h.memo[s] = v
	h.order = append(h.order, s)
	return v
}

func c15NewRing(replicas int, hf *c15Hash) *ConsistentHash {
	return &ConsistentHash{
		hashFunc: hf.fn,
		replicas: replicas,
		ring:     make(map[uint64][]any),
		nodes:    make(map[string]lang.PlaceholderType),
	}
}

var c15Names = []string{"A", "B", "C"}

// c15Shape picks the bounds: quick = 2 nodes, ring replicas 1, 3 operations; thorough = 3 nodes,
// ring replicas 1, 3 operations. (2 nodes x 2 replicas - 4 virtual nodes plus truncated replica
// counts - left z3 with "unknown" on ordering queries after 30 s and is not part of the bound;
// rings with 2 virtual nodes per node are covered by Verif_C15_Disruption.) The number of orderings of the
// symbolic hashes (explored by forking in sort.Search) grows factorially with nodes x replicas.
func c15Shape() (replicas, nodes, steps int) {
	if rt.Tier() == 0 {
		return 1, 2, 3
	}
	return 1, 3, 3
}

// c15Apply performs one symbolic operation on ring h and on the ghost configuration (node -> number
// of virtual nodes, -1 = absent).
func c15Apply(h *ConsistentHash, cfg []int, nodes int) {
	x := rt.Choose("node", nodes)
	name := c15Names[x]
	switch rt.Choose("op", 4) {
	case 0:
		h.Add(name)
		cfg[x] = h.replicas
	case 1:
		n := rt.Choose("replicas", 3) + 1 // 1..3 (3 exceeds the ring's setting and is truncated)
		h.AddWithReplicas(name, n)
		if n > h.replicas {
			n = h.replicas
		}
		cfg[x] = n
	case 2:
		w := rt.Int("weight", 0, 200)
		h.AddWithWeight(name, int(w))
		n := h.replicas * int(w) / TopWeight
		if n > h.replicas {
			n = h.replicas
		}
		cfg[x] = n
	case 3:
		h.Remove(name)
		cfg[x] = -1
	}
}

func c15Present(cfg []int, name any) bool {
	for i, n := range cfg {
		if n > 0 && c15Names[i] == name {
			return true
		}
	}
	return false
}

func c15Empty(cfg []int) bool {
	for _, n := range cfg {
		if n > 0 {
			return false
		}
	}
	return true
}

//verif:entry native tier=quick,thorough cover=hit,empty,removed,collision
//verif:stub github.com/zeromicro/go-zero/core/lang.Repr c15Repr
//verif:doc Member-only (hash collisions allowed): histories of 3 operations (quick: 2 nodes, ring replicas 1; thorough: 3 nodes, ring replicas 1) Add / AddWithReplicas(1..3) / AddWithWeight(0..200) / Remove, every virtual-node hash and the probe hash symbolic: Get returns a node that currently has virtual nodes, none iff there is none, never a removed node.
func Verif_C15_Member() {
	hf := &c15Hash{memo: map[string]uint64{}}
	r, nodes, steps := 1, 2, 3
	if rt.Tier() > 0 {
		nodes = 3 // thorough: 3 nodes x ring replicas 1 (2 virtual nodes per node did not finish in 25 minutes here: Get is asked after every operation)
	}
	h := c15NewRing(r, hf)
	cfg := []int{-1, -1, -1}
	for s := 0; s < steps; s++ {
		c15Apply(h, cfg, nodes)
		got, ok := h.Get("probe")
		if c15Empty(cfg) {
			rt.Cover("empty")
			rt.Assert(!ok, "an empty ring returns none")
		} else {
			rt.Cover("hit")
			rt.Assert(ok, "a non-empty ring always returns a node")
			rt.Assert(c15Present(cfg, got), "Get returns one of the nodes currently in the ring (never a removed one)")
		}
		for i, n := range cfg {
			if n == -1 && s > 0 {
				rt.Cover("removed")
				rt.Assert(!ok || got != c15Names[i], "a removed node is never returned")
			}
		}
		rt.Assert(len(h.keys) >= len(h.ring), "every ring bucket has a key")
		if len(h.keys) > len(h.ring) {
			rt.Cover("collision")
		}
	}
}

//verif:entry native tier=quick,thorough cover=same,differentOrder
//verif:stub github.com/zeromicro/go-zero/core/lang.Repr c15Repr
//verif:doc Determinism (virtual-node hashes pairwise distinct: assumption): after any history of 3 operations (quick: 2 nodes, ring replicas 1; thorough: 3 nodes, ring replicas 1) the answer for the probe equals the answer of a ring built from scratch from the resulting (node, virtual-node count) configuration in a fixed order: the mapping depends only on the current node set and replica counts, not on history.
func Verif_C15_Deterministic() {
	hf := &c15Hash{memo: map[string]uint64{}, distinct: true}
	r, nodes, steps := c15Shape()
	h := c15NewRing(r, hf)
	cfg := []int{-1, -1, -1}
	for s := 0; s < steps; s++ {
		c15Apply(h, cfg, nodes)
	}
	ref := c15NewRing(r, hf)
	for i := len(cfg) - 1; i >= 0; i-- { // a fixed order unrelated to the history
		if cfg[i] > 0 {
			ref.AddWithReplicas(c15Names[i], cfg[i])
		}
	}
	g1, ok1 := h.Get("probe")
	g2, ok2 := ref.Get("probe")
	rt.Cover("same")
	if cfg[0] > 0 && cfg[1] > 0 {
		rt.Cover("differentOrder")
	}
	rt.Assert(ok1 == ok2 && (!ok1 || g1 == g2), "the key-to-node mapping depends only on the current nodes and their replica counts, not on the order of additions and removals")
	rt.Assert(len(h.keys) == len(ref.keys), "the ring holds exactly the virtual nodes of the current configuration")
}

//verif:entry native tier=quick,thorough cover=added,removedNode,reweighted,moved,stayed
//verif:stub github.com/zeromicro/go-zero/core/lang.Repr c15Repr
//verif:doc Minimal disruption (virtual-node hashes pairwise distinct: assumption): from a ring of 1..2 other nodes, adding node X changes the probe's answer only to X; removing X changes it only if it was X; re-adding X with another replica count / weight moves the probe only to or from X.
func Verif_C15_Disruption() {
	hf := &c15Hash{memo: map[string]uint64{}, distinct: true}
	r := 1
	if rt.Tier() > 0 {
		r = rt.Choose("ringReplicas", 2) + 1
	}
	h := c15NewRing(r, hf)
	others := rt.Choose("others", 2) + 1
	for i := 0; i < others; i++ {
		h.AddWithReplicas(c15Names[i], rt.Choose("replicas", r)+1)
	}
	x := "C"
	before, ok0 := h.Get("probe")
	rt.Assert(ok0, "non-empty ring answers")
	// add X
	h.AddWithReplicas(x, rt.Choose("xReplicas", r)+1)
	rt.Cover("added")
	withX, ok1 := h.Get("probe")
	rt.Assert(ok1 && (withX == before || withX == x), "adding a node changes the assignment only of keys that move to it")
	if withX == x {
		rt.Cover("moved")
	} else {
		rt.Cover("stayed")
	}
	switch rt.Choose("then", 2) {
	case 0:
		// re-add X with a different replica count / weight
		if rt.Bool("byWeight") {
			h.AddWithWeight(x, int(rt.Int("weight", 0, 100)))
		} else {
			h.AddWithReplicas(x, rt.Choose("xReplicas2", r)+1)
		}
		rt.Cover("reweighted")
		re, ok2 := h.Get("probe")
		rt.Assert(ok2 && (re == withX || re == x || withX == x), "re-adding a node with another replica count or weight only moves keys to or from that node")
		if re != x && withX != x {
			rt.Assert(re == before, "keys not involving the re-added node keep their assignment")
		}
	case 1:
		h.Remove(x)
		rt.Cover("removedNode")
		after, ok2 := h.Get("probe")
		rt.Assert(ok2 && after != x, "a removed node is never returned")
		rt.Assert(after == before, "removing a node changes the assignment only of keys that were assigned to it (they return to their previous owner)")
	}
}

type c15Named struct{ name string }

func (n c15Named) String() string { return n.name }

//verif:entry native tier=quick,thorough cover=floats,ints,stringers
//verif:doc Node identity through the real lang.Repr: pairs of distinct nodes of other types than string (float64 values differing in the 8th decimal, ints, Stringers) added to a ring with a counting hash: both nodes are present (each is returned for some probe), removing one leaves the other reachable for every probe, and Get never returns the removed one.
func Verif_C15_NodeIdentity() {
	var a, b any
	switch rt.Choose("kind", 3) {
	case 0:
		a, b = 1.00000001, 1.00000002
		rt.Cover("floats")
	case 1:
		a, b = 41, 42
		rt.Cover("ints")
	default:
		a, b = c15Named{"alpha"}, c15Named{"beta"}
		rt.Cover("stringers")
	}
	// a hash that spreads distinct labels over distinct positions in order of first appearance
	seen := map[string]uint64{}
	h := NewCustomConsistentHash(2, func(data []byte) uint64 {
		k := string(data)
		if v, ok := seen[k]; ok {
			return v
		}
		v := uint64(len(seen)+1) * 1000
		seen[k] = v
		return v
	})
	h.Add(a)
	h.Add(b)
	gotA, gotB := false, false
	probes := []string{"p0", "p1", "p2", "p3", "p4", "p5"}
	for _, p := range probes {
		n, ok := h.Get(p)
		rt.Assert(ok, "a non-empty ring always returns a node")
		gotA = gotA || n == a
		gotB = gotB || n == b
	}
	rt.Assert(len(h.nodes) == 2, "two distinct nodes are two members of the ring")
	rt.Assert(len(h.keys) == 2*h.replicas, "each distinct node contributes its own virtual nodes")
	h.Remove(a)
	for _, p := range probes {
		n, ok := h.Get(p)
		rt.Assert(ok && n == b, "after removing one node every key is served by the other, never by the removed one")
	}
	_, _ = gotA, gotB
}

//verif:entry native tier=quick,thorough cover=two,one,collision
//verif:stub github.com/zeromicro/go-zero/core/lang.Repr c15Repr
//verif:doc Removal down to one node (hash collisions allowed, ring replicas 1): A, B and C are added, every virtual-node hash and the probe hash symbolic (so any two or all three may share a slot), then two of them are removed in either order (6 scripts): after the first removal Get answers one of the two remaining nodes, after the second it answers the last remaining node for every probe - no slot left behind by the removed nodes swallows a lookup.
func Verif_C15_RemoveToOne() {
	hf := &c15Hash{memo: map[string]uint64{}}
	h := c15NewRing(1, hf)
	for _, n := range c15Names {
		h.Add(n)
	}
	if len(h.keys) > len(h.ring) {
		rt.Cover("collision")
	}
	x := rt.Choose("first", 3)
	y := (x + 1 + rt.Choose("second", 2)) % 3
	z := 3 - x - y
	h.Remove(c15Names[x])
	got, ok := h.Get("probe")
	rt.Cover("two")
	rt.Assert(ok, "a non-empty ring always returns a node")
	rt.Assert(got == c15Names[y] || got == c15Names[z], "Get returns one of the nodes currently in the ring (never a removed one)")
	h.Remove(c15Names[y])
	got, ok = h.Get("probe")
	rt.Cover("one")
	rt.Assert(ok, "a ring with one node left returns it for every probe")
	rt.Assert(got == c15Names[z], "after removing two of three nodes every probe maps to the remaining node")
}
