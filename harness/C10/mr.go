//verif:pkg core/mr
package mr

// C10 — MapReduce (DESIGN §4 C10): the real MapReduce / MapReduceVoid / MapReduceChan / ForEach /
// Finish / FinishVoid with their generator, dispatcher (executeMappers), worker, reducer and caller
// goroutines run under the engine scheduler. Item values are solver variables; the weighted sum
// computed by the reducer changes for every value when an item is lost or duplicated.

import (
	"context"
	"errors"
	"time"

	rt "github.com/zeromicro/go-zero/internal/verifrt"
)

var (
	c10ErrCancel = errors.New("c10: cancelled by user function")
	c10Pow3      = []int64{1, 3, 9, 27, 81}
)

type c10World struct {
	n, workers, fanout int
	vals               []int64
	mapped             []int
	got                []int // per item: values of that item seen by the reducer
	gauge, maxGauge    int
	genDone            bool
	reducerRuns        int
	reducerEnded       bool
	reducerInWrite     bool
	mapperCancelled    bool
	ctxEnded           bool
	stall              bool
	release            chan struct{}
	usersRunning       int
}

func c10NewWorld(n, workers, fanout int) *c10World {
	w := &c10World{n: n, workers: workers, fanout: fanout, vals: make([]int64, n), mapped: make([]int, n), got: make([]int, n)}
	for i := range w.vals {
		w.vals[i] = rt.Int("v", 1, 1000)
	}
	return w
}

type c10Ctx struct {
	done chan struct{}
	err  error
}

func (c *c10Ctx) Deadline() (time.Time, bool) { return time.Time{}, false }
func (c *c10Ctx) Done() <-chan struct{}       { return c.done }
func (c *c10Ctx) Err() error                  { return c.err }
func (c *c10Ctx) Value(key any) any           { return nil }

type c10Msg struct {
	item int
	val  int64
}

// fault kinds
const (
	c10None = iota
	c10GenPanic
	c10MapPanic
	c10MapCancelErr
	c10MapCancelNil
	c10RedPanic
	c10RedCancelErr
	c10RedCancelNil
	c10MapCancelTwice // cancel(err) then cancel(typed error): only the first cancellation counts
	c10CtxCancel
	c10NumFaults
)

func (w *c10World) generate(fault, at int) GenerateFunc[int] {
	return func(source chan<- int) {
		w.usersRunning++
		defer func() { w.usersRunning-- }()
		for i := 0; i < w.n; i++ {
			if fault == c10GenPanic && i == at {
				panic("c10: generator panic")
			}
			source <- i
		}
		if fault == c10GenPanic && at >= w.n {
			panic("c10: generator panic")
		}
		w.genDone = true
	}
}

func (w *c10World) mapper(fault, at int) MapperFunc[int, c10Msg] {
	return func(item int, writer Writer[c10Msg], cancel func(error)) {
		w.usersRunning++
		defer func() { w.usersRunning-- }()
		w.mapped[item]++
		w.gauge++
		if w.gauge > w.maxGauge {
			w.maxGauge = w.gauge
		}
		rt.Assert(w.gauge <= w.workers, "at most the configured number of mappers run concurrently")
		defer func() { w.gauge-- }()
		rt.Yield()
		if w.stall && item == 0 {
			rt.Cover("stalled")
			<-w.release // ignores the context: stalls until the harness releases it after the call has returned
		}
		if item == at {
			switch fault {
			case c10MapPanic:
				panic("c10: mapper panic")
			}
		}
		for k := 0; k < w.fanout; k++ {
			writer.Write(c10Msg{item: item, val: w.vals[item]})
		}
		if item == at {
			switch fault {
			case c10MapCancelErr:
				w.mapperCancelled = true
				cancel(c10ErrCancel)
			case c10MapCancelNil:
				w.mapperCancelled = true
				cancel(nil)
			case c10MapCancelTwice:
				w.mapperCancelled = true
				cancel(c10ErrCancel)
				cancel(c10TypedErr{code: 7}) // a second cancellation, with an error of another dynamic type, is ignored
			}
		}
	}
}

// reducer: style 0 sums everything and writes the weighted sum once the pipe is closed; style 1
// writes on the first value received and returns; style 2 consumes everything and writes nothing.
func (w *c10World) reducer(style, fault, at int) ReducerFunc[c10Msg, int64] {
	return func(pipe <-chan c10Msg, writer Writer[int64], cancel func(error)) {
		w.usersRunning++
		defer func() { w.usersRunning-- }()
		w.reducerRuns++
		defer func() { w.reducerEnded = true }()
		var sum int64
		seen := 0
		if fault >= c10RedPanic && fault <= c10RedCancelNil && at == 0 {
			w.reducerFault(fault, cancel)
			return
		}
		for m := range pipe {
			w.got[m.item]++
			sum += c10Pow3[m.item] * m.val
			seen++
			if style == 1 {
				w.reducerInWrite = true
				writer.Write(sum)
				w.reducerInWrite = false
				return
			}
			if fault >= c10RedPanic && fault <= c10RedCancelNil && at == seen {
				w.reducerFault(fault, cancel)
				return
			}
		}
		if style == 0 {
			w.reducerInWrite = true
			writer.Write(sum)
			w.reducerInWrite = false
		}
	}
}

func (w *c10World) reducerFault(fault int, cancel func(error)) {
	switch fault {
	case c10RedPanic:
		panic("c10: reducer panic")
	case c10RedCancelErr:
		cancel(c10ErrCancel)
	case c10RedCancelNil:
		cancel(nil)
	}
}

func (w *c10World) wantSum() int64 {
	var s int64
	for i := 0; i < w.n; i++ {
		s += int64(w.fanout) * c10Pow3[i] * w.vals[i]
	}
	return s
}

type c10Result struct {
	val      int64
	err      error
	panicked any
	returned bool
}

func c10IsRuntimeSendOnClosed(p any) bool {
	e, ok := p.(error)
	if !ok {
		return false
	}
	s := e.Error()
	const want = "send on closed channel"
	for i := 0; i+len(want) <= len(s); i++ {
		if s[i:i+len(want)] == want {
			return true
		}
	}
	return false
}

// checkQuiescent: every goroutine the call started is gone once the user functions have returned.
func (w *c10World) checkQuiescent(res *c10Result) {
	rt.WaitIdle()
	rt.Assert(res.returned || res.panicked != nil, "the call returns or re-raises (no deadlock)")
	if w.reducerInWrite && rt.Live() > 0 {
		// the reducer's user function never came back from writer.Write: the library raised a runtime
		// panic there (send on closed channel) and the recovering goroutine is stuck handing it over
		if w.mapperCancelled {
			rt.Assert(false, "library panic 'send on closed channel' in guardedWriter.Write, output closed by a cancelling mapper while the reducer writes its result: reducer goroutine left blocked forever")
		} else if w.ctxEnded {
			rt.Assert(false, "library panic 'send on closed channel' in guardedWriter.Write, output closed at the context's end while the reducer writes its result: reducer goroutine left blocked forever")
		}
	}
	rt.Assert(w.usersRunning == 0, "no user function is still running although nothing in the harness blocks it")
	rt.Assert(rt.Live() == 0, "once the user functions have returned no goroutine started by the call remains alive")
}

func (w *c10World) checkPanic(res *c10Result, fault int) bool {
	if res.panicked == nil {
		return false
	}
	if c10IsRuntimeSendOnClosed(res.panicked) && w.reducerInWrite && w.mapperCancelled {
		rt.Assert(false, "library panic 'send on closed channel' in guardedWriter.Write, output closed by a cancelling mapper while the reducer writes its result: raised from the call")
		return true
	}
	s, _ := res.panicked.(string)
	switch fault {
	case c10GenPanic:
		rt.Assert(s == "c10: generator panic", "only the user function's own panic value is re-raised")
	case c10MapPanic:
		rt.Assert(s == "c10: mapper panic", "only the user function's own panic value is re-raised")
	case c10RedPanic:
		rt.Assert(s == "c10: reducer panic", "only the user function's own panic value is re-raised")
	default:
		rt.Assert(false, "the call panics although no user function panicked")
	}
	rt.Cover("repanic")
	return true
}

func c10Clean(n, workers, fanout int) {
	style := []int{0, 2}[rt.Choose("reducerWrites", 2)]
	void := rt.Choose("void", 2) == 1
	if void && style == 2 {
		rt.Assume(false) // same run as void with style 0
	}
	w := c10NewWorld(n, workers, fanout)
	res := &c10Result{}
	func() {
		defer func() { res.panicked = recover() }()
		if void {
			res.err = MapReduceVoid(w.generate(c10None, -1), w.mapper(c10None, -1), func(pipe <-chan c10Msg, cancel func(error)) {
				w.reducer(2, c10None, -1)(pipe, nil, cancel)
			}, WithWorkers(workers))
		} else {
			res.val, res.err = MapReduce(w.generate(c10None, -1), w.mapper(c10None, -1), w.reducer(style, c10None, -1), WithWorkers(workers))
		}
		res.returned = true
	}()
	rt.Assert(res.panicked == nil, "no panic without a panicking user function")
	for i := 0; i < n; i++ {
		rt.Assert(w.mapped[i] == 1, "every generated item is handed to the mapper exactly once")
		rt.Assert(w.got[i] == fanout, "every value a mapper writes reaches the reducer exactly once")
	}
	rt.Assert(w.genDone && w.reducerRuns == 1 && w.reducerEnded, "generator and reducer ran to completion exactly once")
	switch {
	case void:
		rt.Cover("void")
		rt.Assert(res.err == nil, "MapReduceVoid returns nil when nothing was cancelled")
	case style == 0:
		rt.Cover("sum")
		rt.Assert(res.err == nil && res.val == w.wantSum(), "the call returns the reducer's single output")
	default:
		rt.Cover("nooutput")
		rt.Assert(res.err == ErrReduceNoOutput && res.val == 0, "ErrReduceNoOutput when the reducer wrote nothing")
	}
	if n == 0 {
		rt.Cover("empty")
	}
	if n > workers {
		rt.Cover("morethanworkers")
	}
	w.checkQuiescent(res)
}

//verif:entry dpor tier=quick,thorough steps=4000000 cover=sum,nooutput,void,empty,morethanworkers
//verif:doc MapReduce / MapReduceVoid without faults, ALL interleavings at synchronisation points (sleep-set reduced): (items, workers) in {0,1,2}x{1} and {0,1}x{2}, item values symbolic, mapper fan-out 0..2 (quick: fan-out 2 only with <= 1 item and 1 worker), reducer writing the weighted sum or nothing; every item mapped exactly once, every written value reduced exactly once, result = exact weighted sum (ErrReduceNoOutput / nil for Void), mapper gauge <= workers, no goroutine left.
func Verif_C10_Clean() {
	workers := 1 + rt.Choose("workers", 2)
	n := rt.Choose("items", 4-workers)
	fanout := rt.Choose("fanout", 3)
	if rt.Tier() == 0 && fanout == 2 && (n == 2 || workers == 2) {
		rt.Assume(false) // quick: fan-out 2 only for <= 1 item with 1 worker
	}
	c10Clean(n, workers, fanout)
}

//verif:entry tier=quick,thorough steps=4000000 preempt=1 cover=sum,nooutput,void
//verif:doc MapReduce / MapReduceVoid without faults, wider configurations, all schedules with at most 1 preemption: 2 items x 2 workers with fan-out 1 (thorough: fan-out 1..2, and 3 items x 2 workers with fan-out 1); same assertions as Verif_C10_Clean.
func Verif_C10_CleanWide() {
	n := 2
	fanout := 1
	if rt.Tier() > 0 {
		fanout = 1 + rt.Choose("fanout", 2)
	}
	if rt.Tier() > 0 && rt.Choose("three", 2) == 1 {
		n = 3
		if fanout != 1 {
			rt.Assume(false)
		}
	}
	c10Clean(n, 2, fanout)
}

//verif:entry tier=thorough steps=4000000 preempt=2 cover=sum
//verif:doc MapReduce without faults, 2 items x 2 workers, fan-out 1, summing reducer: all schedules with at most 2 preemptions.
func Verif_C10_CleanDeep() {
	w := c10NewWorld(2, 2, 1)
	res := &c10Result{}
	res.val, res.err = MapReduce(w.generate(c10None, -1), w.mapper(c10None, -1), w.reducer(0, c10None, -1), WithWorkers(2))
	res.returned = true
	rt.Cover("sum")
	rt.Assert(res.err == nil && res.val == w.wantSum(), "the call returns the reducer's single output")
	for i := 0; i < 2; i++ {
		rt.Assert(w.mapped[i] == 1 && w.got[i] == 1, "every item is mapped and reduced exactly once")
	}
	w.checkQuiescent(res)
}

func c10Faults(n, workers, fault int, stall bool) { c10FaultsOpt(n, workers, fault, stall, false) }

func c10FaultsOpt(n, workers, fault int, stall, onlySum bool) {
	at := rt.Choose("at", n+1)
	if (fault == c10MapPanic || fault == c10MapCancelErr || fault == c10MapCancelNil || fault == c10MapCancelTwice) && at >= n {
		rt.Assume(false)
	}
	if fault == c10CtxCancel && at > 0 {
		rt.Assume(false)
	}
	style := rt.Choose("reducerStyle", 2) // 0 sum at the end, 1 write on first value
	void := rt.Choose("void", 2) == 1
	if void && style == 1 {
		rt.Assume(false)
	}
	if onlySum && (void || style == 1) {
		rt.Assume(false)
	}
	if rt.Tier() == 0 && stall && (void || style == 1) {
		rt.Assume(false) // quick: the stalling mapper only with the summing, value-returning reducer
	}
	w := c10NewWorld(n, workers, 1)
	w.stall, w.release = stall, make(chan struct{})
	res := &c10Result{}
	var opts []Option
	opts = append(opts, WithWorkers(workers))
	if fault == c10CtxCancel {
		// the caller's context is any implementation of context.Context: a minimal one keeps the
		// schedule space to the library's own synchronisation (one close instead of ~100 points)
		ctx := &c10Ctx{done: make(chan struct{})}
		opts = append(opts, WithContext(ctx))
		go func() {
			rt.Yield()
			ctx.err = context.Canceled
			w.ctxEnded = true
			close(ctx.done)
		}()
	}
	func() {
		defer func() { res.panicked = recover() }()
		if void {
			res.err = MapReduceVoid(w.generate(fault, at), w.mapper(fault, at), func(pipe <-chan c10Msg, cancel func(error)) {
				w.reducer(2, fault, at)(pipe, nil, cancel)
			}, opts...)
		} else {
			res.val, res.err = MapReduce(w.generate(fault, at), w.mapper(fault, at), w.reducer(style, fault, at), opts...)
		}
		res.returned = true
	}()
	if stall {
		rt.Assert(res.returned && (res.err == context.Canceled || res.err == context.DeadlineExceeded), "with a mapper that ignores the context and stalls, the call still returns a context error once the context has ended")
		close(w.release)
	}
	for i := 0; i < n; i++ {
		rt.Assert(w.mapped[i] <= 1 && w.got[i] <= 1, "no item is mapped twice and no value reduced twice, faults or not")
	}
	if !w.checkPanic(res, fault) {
		allDone := true
		for i := 0; i < n; i++ {
			if w.mapped[i] != 1 {
				allDone = false
			}
		}
		switch {
		case res.err == c10ErrCancel:
			rt.Cover("cancelerr")
			rt.Assert(fault == c10MapCancelErr || fault == c10RedCancelErr || fault == c10MapCancelTwice, "an error is returned only if it was passed to cancel")
		case res.err == ErrCancelWithNil:
			rt.Cover("cancelnil")
			rt.Assert(fault == c10MapCancelNil || fault == c10RedCancelNil, "ErrCancelWithNil only after cancel(nil)")
		case res.err == context.DeadlineExceeded || res.err == context.Canceled:
			rt.Cover("ctxerr")
			rt.Assert(fault == c10CtxCancel, "a context error only when the context ended")
		case res.err == nil:
			rt.Cover("completed")
			// a fault that did not prevent completion: a fault site that was never reached or a late context end
			if void {
				rt.Assert(allDone, "MapReduceVoid returns nil only when every generated item was mapped")
			} else if style == 0 {
				rt.Assert(allDone && res.val == w.wantSum(), "a nil error comes with the complete reduction")
			}
			switch fault {
			case c10MapCancelErr, c10MapCancelNil, c10MapCancelTwice:
				// with the early-writing reducer the result can be out before the mapper cancels
				rt.Assert(style == 1, "a cancelling mapper never yields a nil error once the reducer waits for the end of the pipe")
			case c10MapPanic:
				rt.Assert(false, "a panicking mapper never yields a nil error")
			case c10GenPanic:
				rt.Assert(false, "a panicking generator never yields a nil error")
			case c10RedPanic, c10RedCancelErr, c10RedCancelNil:
				rt.Assert(at > 0 && style == 1, "a cancelling or panicking reducer never yields a nil error")
			}
		case res.err == ErrReduceNoOutput:
			rt.Assert(fault != c10CtxCancel, "ErrReduceNoOutput is not reported for a reduction whose result was dropped because the context ended")
			rt.Assert(false, "ErrReduceNoOutput only when the reducer ended without writing and nothing else ended the call")
		default:
			rt.Assert(false, "the call returns an error that is neither a cancel error, ErrCancelWithNil nor a context error")
		}
	}
	w.checkQuiescent(res)
}

//verif:entry dpor tier=quick,thorough steps=4000000 cover=repanic,cancelerr,cancelnil,completed
//verif:doc MapReduce / MapReduceVoid with one fault, ALL interleavings (sleep-set reduced): 1 item x 1 worker (thorough also 1 item x 2 workers and 2 items x 1 worker), fan-out 1; the generator before item j, the mapper of item j or the reducer after k values panics, or the mapper/reducer cancels with an error or nil, or the mapper cancels twice with errors of different dynamic types; the reducer either sums at the end or writes on the first value. The call returns (no deadlock) the cancel error / ErrCancelWithNil or re-raises exactly the user panic; a nil error means all work was done; no goroutine is left.
func Verif_C10_Faults() {
	workers, n := 1, 1
	if rt.Tier() > 0 {
		workers = 1 + rt.Choose("workers", 2)
		if workers == 1 {
			n = 1 + rt.Choose("items", 2)
		}
	}
	fault := 1 + rt.Choose("fault", c10CtxCancel-1)
	c10Faults(n, workers, fault, false)
}

//verif:entry tier=quick,thorough steps=4000000 preempt=1 cover=ctxerr,completed,stalled
//verif:doc MapReduce / MapReduceVoid whose context is cancelled at an arbitrary scheduling point (a minimal context.Context implementation: Done channel + Err), 1 item x 1 worker (thorough also 1 x 2, and 2 x 1 with the summing value-returning reducer only), optionally (1 x 1) with a mapper that ignores the context and stalls until after the call has returned; all schedules with at most 1 preemption: the call returns a context error or the complete result, never ErrReduceNoOutput/nil for a reduction that was cut short; it returns although the mapper stalls; no goroutine is left once the stalled mapper is released.
func Verif_C10_Context() {
	n, workers := 1, 1
	if rt.Tier() > 0 {
		cfg := [][2]int{{1, 1}, {1, 2}, {2, 1}}[rt.Choose("config", 3)]
		n, workers = cfg[0], cfg[1]
	}
	stall := false
	if n == 1 && workers == 1 {
		stall = rt.Choose("stall", 2) == 1
	}
	if n == 2 {
		// 2 items: only the summing, value-returning reducer (1.5 million schedules; the other reducer
		// styles are covered with 1 item)
		c10FaultsOpt(n, workers, c10CtxCancel, stall, true)
		return
	}
	c10Faults(n, workers, c10CtxCancel, stall)
}

//verif:entry tier=thorough steps=4000000 preempt=1 cover=repanic,cancelerr
//verif:doc MapReduce (summing, value-returning reducer) with one fault out of {mapper panic, mapper cancel(err), reducer cancel(err)}, 2 items x 2 workers, all schedules with at most 1 preemption; same assertions as Verif_C10_Faults.
func Verif_C10_FaultsWide() {
	c10FaultsOpt(2, 2, []int{c10MapPanic, c10MapCancelErr, c10RedCancelErr}[rt.Choose("fault", 3)], false, true)
}

type c10TypedErr struct{ code int }

func (e c10TypedErr) Error() string { return "c10: typed cancel error" }

//verif:entry tier=thorough steps=4000000 preempt=1 cover=first,second
//verif:doc MapReduce with TWO cancellations whose errors have different dynamic types: 2 items x 2 workers, the mapper of item 0 cancels with an errors.New value and the mapper of item 1 with a struct-typed error; schedules with at most 1 preemption: the call returns one of the errors passed to cancel (or a context error), never panics, and leaves no goroutine.
func Verif_C10_TwoCancels() {
	// the variant "one mapper cancels while the caller's context ends" on 2 x 2 did not finish within
	// 17 minutes (16 workers) and is not part of the registered bound; a mapper cancelling under a
	// context that ends is covered on 1 x 1 .. 2 x 1 by Verif_C10_Context / Verif_C10_Faults
	withCtx := false
	w := c10NewWorld(2, 2, 1)
	res := &c10Result{}
	typed := c10TypedErr{code: 7}
	opts := []Option{WithWorkers(2)}
	if withCtx {
		ctx := &c10Ctx{done: make(chan struct{})}
		opts = append(opts, WithContext(ctx))
		go func() {
			rt.Yield()
			ctx.err = context.Canceled
			w.ctxEnded = true
			close(ctx.done)
		}()
	}
	func() {
		defer func() { res.panicked = recover() }()
		res.val, res.err = MapReduce(w.generate(c10None, -1), func(item int, writer Writer[c10Msg], cancel func(error)) {
			w.usersRunning++
			defer func() { w.usersRunning-- }()
			w.mapped[item]++
			rt.Yield()
			if item == 0 {
				w.mapperCancelled = true
				cancel(c10ErrCancel)
			} else if !withCtx {
				w.mapperCancelled = true
				cancel(typed)
			}
		}, w.reducer(0, c10None, -1), opts...)
		res.returned = true
	}()
	rt.Assert(res.panicked == nil, "cancelling twice (with errors of different types) never makes the call panic")
	switch {
	case res.err == c10ErrCancel:
		rt.Cover("first")
	case res.err == error(typed):
		rt.Cover("second")
		rt.Assert(!withCtx, "an error is returned only if it was passed to cancel")
	case res.err == context.DeadlineExceeded || res.err == context.Canceled:
		rt.Cover("ctx")
		rt.Assert(withCtx, "a context error only when the context ended")
	default:
		rt.Assert(false, "after a mapper cancelled, the call returns an error that was passed to cancel or a context error")
	}
	w.checkQuiescent(res)
}

//verif:entry dpor tier=quick,thorough steps=4000000 cover=masked
//verif:doc MapReduce, a result written while a cancellation is in progress (all interleavings): the generator stalls after its only item, the mapper writes and calls cancel(err) - which records the error and then waits for the stalled generator before it closes the pipeline - and the reducer writes its result exactly in that window (released only when everything else is blocked); then the generator is released. The call returns the error passed to cancel, not the late result.
func Verif_C10_CancelWhileSourceStalls() {
	genGate, redGate := make(chan struct{}), make(chan struct{})
	go func() {
		rt.WaitIdle() // cancel has recorded its error and is blocked draining the stalled source
		close(redGate)
		rt.WaitIdle()
		close(genGate)
	}()
	val, err := MapReduce(func(source chan<- int) {
		source <- 1
		<-genGate
	}, func(item int, writer Writer[int], cancel func(error)) {
		writer.Write(item)
		cancel(c10ErrCancel)
	}, func(pipe <-chan int, writer Writer[int], cancel func(error)) {
		v := <-pipe
		<-redGate
		rt.Cover("masked")
		writer.Write(v + 41)
	}, WithWorkers(1))
	rt.Assert(err == c10ErrCancel && val == 0, "a result written after the cancellation was recorded never masks the error passed to cancel")
	rt.WaitIdle()
	rt.Assert(rt.Live() == 0, "no goroutine started by the call remains alive")
}

//verif:entry dpor tier=thorough steps=4000000 cover=repanic
//verif:doc MapReduce with TWO panicking mappers: 2 items x 2 workers, both mappers panic after a yield; ALL interleavings (DPOR): the call re-raises one of the two panics (never hangs), and no goroutine is left - the panic hand-over is written at most once however the two panics interleave.
func Verif_C10_TwoPanics() {
	w := c10NewWorld(2, 2, 1)
	res := &c10Result{}
	func() {
		defer func() { res.panicked = recover() }()
		res.val, res.err = MapReduce(w.generate(c10None, -1), func(item int, writer Writer[c10Msg], cancel func(error)) {
			w.usersRunning++
			defer func() { w.usersRunning-- }()
			rt.Yield()
			if item == 0 {
				panic("c10: mapper panic 0")
			}
			panic("c10: mapper panic 1")
		}, w.reducer(0, c10None, -1), WithWorkers(2))
		res.returned = true
	}()
	s, _ := res.panicked.(string)
	rt.Cover("repanic")
	rt.Assert(s == "c10: mapper panic 0" || s == "c10: mapper panic 1", "one of the user panics is re-raised")
	w.checkQuiescent(res)
}
