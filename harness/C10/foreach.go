//verif:pkg core/mr
package mr

// C10 — ForEach / Finish / FinishVoid / MapReduceChan under the engine scheduler (all interleavings,
// sleep-set reduced).

import (
	"errors"

	rt "github.com/zeromicro/go-zero/internal/verifrt"
)

var (
	c10ErrA = errors.New("c10: fn a failed")
	c10ErrB = errors.New("c10: fn b failed")
)

//verif:entry dpor tier=quick,thorough steps=4000000 cover=all,repanic,empty
//verif:doc ForEach, ALL interleavings: 0..2 items, 1..2 workers, optionally the mapper of item j or the generator (before item j) panics: without a panic every item is processed exactly once and the call returns after all mappers have; a panic is re-raised with the user's value; mapper gauge <= workers; no goroutine left.
func Verif_C10_ForEach() {
	n := rt.Choose("items", 3)
	workers := 1 + rt.Choose("workers", 2)
	fault := rt.Choose("fault", 3) // 0 none, 1 mapper panics, 2 generator panics
	at := rt.Choose("at", n+1)
	if fault == 0 && at > 0 {
		rt.Assume(false)
	}
	if fault == 1 && at >= n {
		rt.Assume(false)
	}
	mapped := make([]int, n)
	finished := 0
	gauge := 0
	users := 0
	var panicked any
	returned := false
	func() {
		defer func() { panicked = recover() }()
		ForEach(func(source chan<- int) {
			users++
			defer func() { users-- }()
			for i := 0; i < n; i++ {
				if fault == 2 && i == at {
					panic("c10: generator panic")
				}
				source <- i
			}
			if fault == 2 && at >= n {
				panic("c10: generator panic")
			}
		}, func(item int) {
			users++
			defer func() { users-- }()
			mapped[item]++
			gauge++
			rt.Assert(gauge <= workers, "at most the configured number of ForEach mappers run concurrently")
			defer func() { gauge-- }()
			rt.Yield()
			if fault == 1 && item == at {
				panic("c10: mapper panic")
			}
			finished++
		}, WithWorkers(workers))
		returned = true
	}()
	for i := 0; i < n; i++ {
		rt.Assert(mapped[i] <= 1, "ForEach never processes an item twice")
	}
	switch {
	case panicked != nil:
		rt.Cover("repanic")
		s, _ := panicked.(string)
		rt.Assert((fault == 1 && s == "c10: mapper panic") || (fault == 2 && s == "c10: generator panic"), "ForEach re-raises exactly the user function's panic value")
	default:
		rt.Assert(returned && fault == 0, "ForEach returns normally only when no user function panicked")
		rt.Cover("all")
		for i := 0; i < n; i++ {
			rt.Assert(mapped[i] == 1, "ForEach processes every generated item exactly once")
		}
		rt.Assert(finished == n, "ForEach returns only after every mapper has returned")
		if n == 0 {
			rt.Cover("empty")
		}
	}
	rt.WaitIdle()
	rt.Assert(users == 0 && rt.Live() == 0, "once the user functions have returned no goroutine started by ForEach remains alive")
}

//verif:entry tier=quick,thorough steps=4000000 preempt=1,2 cover=allok,failed,void
//verif:doc Finish / FinishVoid, schedules with at most 1 (quick) / 2 (thorough) preemptions: 0..2 functions each returning nil or its own error (symbolic choice): Finish returns nil iff all returned nil (then each ran exactly once), otherwise one of the errors actually returned; no function runs twice; FinishVoid runs each exactly once; no goroutine left.
func Verif_C10_Finish() {
	n := rt.Choose("fns", 3)
	void := rt.Choose("void", 2) == 1
	ran := make([]int, n)
	fails := make([]bool, n)
	errs := []error{c10ErrA, c10ErrB}
	anyFail := false
	for i := range fails {
		if !void {
			fails[i] = rt.Choose("fails", 2) == 1
		}
		anyFail = anyFail || fails[i]
	}
	if void {
		var fns []func()
		for i := 0; i < n; i++ {
			i := i
			fns = append(fns, func() { ran[i]++; rt.Yield() })
		}
		FinishVoid(fns...)
		rt.Cover("void")
		for i := 0; i < n; i++ {
			rt.Assert(ran[i] == 1, "FinishVoid runs every function exactly once before returning")
		}
	} else {
		var fns []func() error
		for i := 0; i < n; i++ {
			i := i
			fns = append(fns, func() error {
				ran[i]++
				rt.Yield()
				if fails[i] {
					return errs[i]
				}
				return nil
			})
		}
		err := Finish(fns...)
		for i := 0; i < n; i++ {
			rt.Assert(ran[i] <= 1, "Finish never runs a function twice")
		}
		if !anyFail {
			rt.Cover("allok")
			rt.Assert(err == nil, "Finish returns nil when every function returned nil")
			for i := 0; i < n; i++ {
				rt.Assert(ran[i] == 1, "Finish runs every function exactly once when none fails")
			}
		} else {
			rt.Cover("failed")
			ok := false
			for i := 0; i < n; i++ {
				if fails[i] && ran[i] == 1 && err == errs[i] {
					ok = true
				}
			}
			rt.Assert(ok, "Finish returns an error that one of the functions actually returned")
		}
	}
	rt.WaitIdle()
	rt.Assert(rt.Live() == 0, "no goroutine started by Finish/FinishVoid remains alive")
}

//verif:entry dpor tier=quick,thorough steps=4000000 cover=sum
//verif:doc MapReduceChan, ALL interleavings: the caller feeds 0..2 symbolic items through its own channel and closes it; 1 worker; the result is the exact weighted sum; no goroutine left.
func Verif_C10_Chan() {
	n := rt.Choose("items", 3)
	w := c10NewWorld(n, 1, 1)
	src := make(chan int)
	go func() {
		for i := 0; i < n; i++ {
			src <- i
		}
		close(src)
	}()
	val, err := MapReduceChan(src, w.mapper(c10None, -1), w.reducer(0, c10None, -1), WithWorkers(1))
	rt.Cover("sum")
	rt.Assert(err == nil && val == w.wantSum(), "MapReduceChan returns the reducer's single output over all items of the source channel")
	for i := 0; i < n; i++ {
		rt.Assert(w.mapped[i] == 1 && w.got[i] == 1, "every item of the source channel is mapped and reduced exactly once")
	}
	rt.WaitIdle()
	rt.Assert(rt.Live() == 0, "no goroutine started by MapReduceChan remains alive")
}
