//verif:pkg core/stores/cache
package cache

// C06 — cache-aside store: coherent reads, load suppression, failure containment (DESIGN §4 C06).
// Real code executed: NewNode, cacheNode.{TakeCtx,TakeWithExpireCtx,doTake,doGetCache,processCache,
// setCacheWithNotFound,SetWithExpireCtx,SetCtx,GetCtx,DelCtx,aroundDuration}, mathx.Unstable.
// AroundDuration (jitter arithmetic, E2 floats), syncx.flightGroup. The Redis commands go to the
// engine's Redis model; jsonx is a token table (values are small version numbers).

import (
	"context"
	"errors"
	"fmt"
	"strconv"
	"time"

	"github.com/zeromicro/go-zero/core/collection"
	"github.com/zeromicro/go-zero/core/mathx"
	"github.com/zeromicro/go-zero/core/stores/redis"
	"github.com/zeromicro/go-zero/core/syncx"
	rt "github.com/zeromicro/go-zero/internal/verifrt"
)

type c06Row struct{ Ver int64 }

// C06Tokener lets harness rows of other packages (sqlc) go through the token-table stand-in of jsonx.
type C06Tokener interface {
	VerifToken() int64
	VerifFromToken(n int64)
}

//verif:stub github.com/zeromicro/go-zero/core/jsonx.Marshal c06Marshal
func c06Marshal(v any) ([]byte, error) {
	switch x := v.(type) {
	case *c06Row:
		return []byte("row:" + strconv.FormatInt(x.Ver, 10)), nil
	case C06Tokener:
		return []byte("row:" + strconv.FormatInt(x.VerifToken(), 10)), nil
	case *any:
		if n, ok := (*x).(int64); ok {
			return []byte("pk:" + strconv.FormatInt(n, 10)), nil
		}
	case int64:
		return []byte("pk:" + strconv.FormatInt(x, 10)), nil
	}
	return nil, errors.New("c06: value outside the token table")
}

//verif:stub github.com/zeromicro/go-zero/core/jsonx.Unmarshal c06Unmarshal
func c06Unmarshal(data []byte, v any) error {
	s := string(data)
	if p, ok := v.(*any); ok {
		if len(s) < 4 || s[:3] != "pk:" {
			return errors.New("c06: malformed cache content")
		}
		n, err := strconv.ParseInt(s[3:], 10, 64)
		if err != nil {
			return err
		}
		*p = n
		return nil
	}
	if len(s) < 5 || s[:4] != "row:" {
		return errors.New("c06: malformed cache content")
	}
	n, err := strconv.ParseInt(s[4:], 10, 64)
	if err != nil {
		return err
	}
	switch x := v.(type) {
	case *c06Row:
		x.Ver = n
	case C06Tokener:
		x.VerifFromToken(n)
	default:
		return errors.New("c06: destination outside the token table")
	}
	return nil
}

// the retry cleaner's package-level timing wheel (1 s ticker) is irrelevant here: AddCleanTask is
// intercepted below, so the wheel is never used and need not tick
//
//verif:stub github.com/zeromicro/go-zero/core/collection.NewTimingWheel c06NewTimingWheel
func c06NewTimingWheel(interval time.Duration, numSlots int, execute collection.Execute) (*collection.TimingWheel, error) {
	return &collection.TimingWheel{}, nil
}

// hit/miss statistics are irrelevant (and their atomics would only multiply schedules)
//
//verif:stub (*github.com/zeromicro/go-zero/core/stores/cache.Stat).IncrementTotal c06StatNop
//verif:stub (*github.com/zeromicro/go-zero/core/stores/cache.Stat).IncrementHit c06StatNop
//verif:stub (*github.com/zeromicro/go-zero/core/stores/cache.Stat).IncrementMiss c06StatNop
//verif:stub (*github.com/zeromicro/go-zero/core/stores/cache.Stat).IncrementDbFails c06StatNop
func c06StatNop(s *Stat) {}

var (
	c06CleanTasks int
	c06Pending    []func() error // retry tasks handed to the cleaner (run by the harness, as the cleaner would later)
)

//verif:stub github.com/zeromicro/go-zero/core/stores/cache.AddCleanTask c06AddCleanTask
func c06AddCleanTask(task func() error, keys ...string) {
	c06CleanTasks++
	c06Pending = append(c06Pending, task)
}

var (
	c06ErrNotFound = errors.New("c06: row not found")
	c06ErrDb       = errors.New("c06: database unreachable")
)

const c06Key = "cache:user:1"

type c06World struct {
	node                   Cache
	expiry                 time.Duration // effective expiry (after defaults)
	nfExpiry               time.Duration
	cfgExpiry, cfgNfExpiry time.Duration // as configured (may be <= 0)
	wrapNotFound           bool          // the query wraps the not-found error (fmt.Errorf("...: %w", errNotFound))
	rowThere               bool
	rowVer                 int64
	dbFails                bool
	queries                int
	inFlight               int
	maxFlight              int
}

func c06NewWorld() *c06World {
	w := &c06World{}
	// configured values; zero or negative ones fall back to the documented defaults (7 d / 1 min)
	cfg := [][2]time.Duration{{time.Second, time.Second}, {10 * time.Second, time.Minute}, {7 * 24 * time.Hour, time.Second}, {-time.Minute, time.Minute}, {10 * time.Second, -time.Minute}}[rt.Choose("expiries", 5)]
	w.cfgExpiry, w.cfgNfExpiry = cfg[0], cfg[1]
	w.expiry, w.nfExpiry = w.cfgExpiry, w.cfgNfExpiry
	if w.expiry <= 0 {
		w.expiry = 7 * 24 * time.Hour
	}
	if w.nfExpiry <= 0 {
		w.nfExpiry = time.Minute
	}

	w.rowVer = 1
	if rt.Tier() > 0 {
		w.rowVer = int64(rt.Choose("rowVersion", 2)) + 1
	}
	return w.build()
}

func (w *c06World) build() *c06World {
	if w.cfgExpiry == 0 {
		w.cfgExpiry, w.cfgNfExpiry = w.expiry, w.nfExpiry
	}
	w.node = NewNode(&redis.Redis{}, syncx.NewSingleFlight(), &Stat{}, c06ErrNotFound, WithExpiry(w.cfgExpiry), WithNotFoundExpiry(w.cfgNfExpiry))
	w.rowThere = rt.Bool("rowPresent")
	if !w.rowThere {
		w.wrapNotFound = rt.Bool("queryWrapsNotFound")
	}
	return w
}

// jitter is irrelevant to load suppression: identity (the TTL arithmetic is checked by Take and Writes)
func c06NoJitter(u mathx.Unstable, base time.Duration) time.Duration { return base }

func (w *c06World) query(v any) error {
	w.queries++
	w.inFlight++
	if w.inFlight > w.maxFlight {
		w.maxFlight = w.inFlight
	}
	rt.Yield()
	w.inFlight--
	if w.dbFails {
		return c06ErrDb
	}
	if !w.rowThere {
		if w.wrapNotFound {
			return fmt.Errorf("find row: %w", c06ErrNotFound)
		}
		return c06ErrNotFound
	}
	v.(*c06Row).Ver = w.rowVer
	return nil
}

func c06Secs(d time.Duration) int64 { return int64(d / time.Second) }

// jittered TTL window in whole seconds: [ceil(0.95 e), ceil(1.05 e)], at least 1
func c06TTLWindow(e time.Duration) (lo, hi int64) {
	n := int64(e)
	lo = (n*95 + 100*1e9 - 1) / (100 * 1e9)
	hi = (n*105 + 100*1e9 - 1) / (100 * 1e9)
	return
}

const (
	c06Absent = iota
	c06Placeholder
	c06Value
	c06Garbage
)

//verif:entry tier=quick,thorough steps=600000 recycle=1 cover=hit,placeholder,missfound,missnotfound,dberror,cachedown,garbage,expired,writedown
//verif:doc One cached read (TakeCtx or TakeWithExpireCtx) from an arbitrary coherent (cache, database) state: cache entry absent / not-found placeholder / value / garbage with a symbolic remaining TTL and symbolic clock advance, row present or absent, (expiry, not-found expiry) in {(1 s,1 s), (10 s,1 min), (7 d,1 s), (-1 min => default 7 d, 1 min), (10 s, -1 min => default 1 min)}, the database's not-found error plain or wrapped, database failure and one store failure at a symbolic call index; jitter random draw symbolic (E2 floats).
func Verif_C06_Take() {
	w := c06NewWorld()
	kind := rt.Choose("cacheEntry", 4)
	ttl := rt.Int("ttl_ms", 1, 1<<40)
	switch kind {
	case c06Placeholder:
		rt.Assume(!w.rowThere) // coherence: a placeholder stands for an absent row
		rt.RedisSetStr(c06Key, "*", ttl)
	case c06Value:
		rt.Assume(w.rowThere) // coherence: a cached value equals the database row
		rt.RedisSetStr(c06Key, "row:"+strconv.FormatInt(w.rowVer, 10), ttl)
	case c06Garbage:
		rt.RedisSetStr(c06Key, "{broken", ttl)
	}
	el := rt.Int("elapsed_ms", 0, 1<<41)
	rt.Advance(el * 1000000)
	live := kind != c06Absent && ttl > el
	if kind != c06Absent && !live {
		rt.Cover("expired")
	}
	w.dbFails = rt.Bool("dbFails")
	failAt := rt.Choose("storeFailsAtCall", 4) - 1 // -1: the store never fails
	if failAt >= 0 {
		rt.RedisFailAt(failAt)
	}
	writes0 := rt.RedisWrites()
	var got c06Row
	var err error
	withExpire := rt.Bool("takeWithExpire")
	if withExpire {
		err = w.node.TakeWithExpireCtx(context.Background(), &got, c06Key, func(v any, expire time.Duration) error {
			lo, hi := c06TTLWindow(w.expiry)
			rt.Assert(int64(expire) >= int64(w.expiry)*95/100-1 && int64(expire) <= int64(w.expiry)*105/100+1, "the expiry handed to the query lies within +/-5% of the configured expiry")
			_, _ = lo, hi
			return w.query(v)
		})
	} else {
		err = w.node.TakeCtx(context.Background(), &got, c06Key, w.query)
	}
	rt.Assert(rt.RedisPersistentWrites() == 0, "every entry written carries a finite TTL, never a persistent key")
	if failAt == 0 {
		// the cache GET itself failed
		rt.Cover("cachedown")
		rt.Assert(err != nil && err != c06ErrNotFound, "a failing cache store (other than a miss) is reported")
		rt.Assert(w.queries == 0, "a failing cache store is reported without querying the database")
		return
	}
	switch {
	case live && kind == c06Value:
		rt.Cover("hit")
		rt.Assert(err == nil && got.Ver == w.rowVer, "a cached row is returned as is")
		rt.Assert(w.queries == 0, "a cached row is served without touching the database")
		rt.Assert(rt.RedisWrites() == writes0, "a hit writes nothing")
	case live && kind == c06Placeholder:
		rt.Cover("placeholder")
		rt.Assert(err == c06ErrNotFound, "a cached not-found marker yields the configured not-found error")
		rt.Assert(w.queries == 0, "a cached not-found marker is served without touching the database")
	default:
		// miss (absent, expired, or unreadable content which is dropped)
		if live && kind == c06Garbage {
			rt.Cover("garbage")
		}
		rt.Assert(w.queries == 1, "a miss runs exactly one database query")
		switch {
		case w.dbFails:
			rt.Cover("dberror")
			rt.Assert(err == c06ErrDb, "database errors are returned")
			rt.Assert(rt.RedisWrites() == writes0, "database errors are never cached")
			_, there := rt.RedisGetStr(c06Key)
			rt.Assert(!there || (live && failAt == 1), "nothing is cached after a database error")
		case !w.rowThere:
			rt.Cover("missnotfound")
			rt.Assert(err == c06ErrNotFound, "an absent row yields the configured not-found error")
			v, there := rt.RedisGetStr(c06Key)
			if live && kind == c06Garbage && failAt == 1 {
				// the store failed while dropping the unreadable entry: it stays, the marker cannot be set (SETNX)
				rt.Assert(there && v == "{broken", "a failed cleanup leaves the old entry untouched")
			} else if there {
				lo, hi := c06TTLWindow(w.nfExpiry)
				p := rt.RedisPTTL(c06Key)
				rt.Assert(v == "*", "an absent row is cached as the not-found marker")
				rt.Assert(p >= lo*1000 && p <= hi*1000 && p >= 1000, "the not-found marker's TTL is the configured not-found expiry +/-5%, rounded up to seconds")
			} else {
				rt.Cover("writedown")
				rt.Assert(failAt >= 1, "the marker is missing only if the store failed while writing it")
			}
		default:
			rt.Cover("missfound")
			rt.Assert(err == nil && got.Ver == w.rowVer, "a miss returns exactly what the database holds")
			v, there := rt.RedisGetStr(c06Key)
			if there {
				lo, hi := c06TTLWindow(w.expiry)
				p := rt.RedisPTTL(c06Key)
				rt.Assert(v == "row:"+strconv.FormatInt(w.rowVer, 10), "the loaded row is what gets cached")
				rt.Assert(p >= lo*1000 && p <= hi*1000 && p >= 1000, "the cached row's TTL is the configured expiry +/-5%, rounded up to seconds")
			} else {
				rt.Assert(failAt >= 1, "the row is uncached only if the store failed while writing it")
			}
		}
	}
}

//verif:entry dpor tier=quick,thorough steps=600000 cover=shared,single
//verif:stub (github.com/zeromicro/go-zero/core/mathx.Unstable).AroundDuration c06NoJitter
//verif:doc Two concurrent cached reads of one uncached key under every interleaving: at most one database query in flight at any time, every reader receives that query's result (row, not-found or database error).
func Verif_C06_Flight() {
	w := (&c06World{expiry: 10 * time.Second, nfExpiry: time.Second, rowVer: 1}).build()
	w.dbFails = rt.Bool("dbFails")
	var rows [2]c06Row
	var errs [2]error
	done := 0
	for g := 0; g < 2; g++ {
		g := g
		go func() {
			errs[g] = w.node.TakeCtx(context.Background(), &rows[g], c06Key, w.query)
			done++
		}()
	}
	rt.WaitIdle()
	rt.Assert(done == 2, "both readers return")
	rt.Assert(w.maxFlight <= 1, "concurrent reads of an uncached key run at most one database query at a time")
	if w.queries == 1 {
		rt.Cover("shared")
	} else {
		rt.Cover("single")
	}
	for g := 0; g < 2; g++ {
		switch {
		case w.dbFails && w.queries == 2:
			rt.Assert(errs[g] == c06ErrDb, "database errors are returned to every reader")
		case w.dbFails:
			rt.Assert(errs[g] == c06ErrDb || errs[g] == nil || errs[g] == c06ErrNotFound, "reader outcome")
		case !w.rowThere:
			rt.Assert(errs[g] == c06ErrNotFound, "every reader of an absent row gets the not-found error")
		default:
			rt.Assert(errs[g] == nil && rows[g].Ver == w.rowVer, "every reader receives the loaded row")
		}
	}
	rt.Assert(rt.RedisPersistentWrites() == 0, "no persistent key is ever written")
}

//verif:entry tier=quick,thorough steps=600000 recycle=1 cover=set,del,deldown
//verif:doc Writes: SetWithExpireCtx with a symbolic requested expiry in [1 ms, 2^40 ns] stores a TTL of ceil(expiry) seconds >= 1 (never persistent); SetCtx uses the configured expiry +/-5%; DelCtx removes every given key, and a failing delete is handed to the retry cleaner instead of being dropped.
func Verif_C06_Writes() {
	w := c06NewWorld()
	ctx := context.Background()
	switch rt.Choose("op", 3) {
	case 0:
		e := rt.Int("expire_ns", 1000000, 1<<40)
		err := w.node.SetWithExpireCtx(ctx, c06Key, &c06Row{Ver: 7}, time.Duration(e))
		rt.Cover("set")
		rt.Assert(err == nil, "set succeeds")
		p := rt.RedisPTTL(c06Key)
		rt.Assert(p == ((e+999999999)/1000000000)*1000, "the requested expiry is rounded up to whole seconds")
		rt.Assert(p >= 1000, "an entry never gets a zero or negative TTL")
	case 1:
		err := w.node.SetCtx(ctx, c06Key, &c06Row{Ver: 7})
		lo, hi := c06TTLWindow(w.expiry)
		p := rt.RedisPTTL(c06Key)
		rt.Assert(err == nil && p >= lo*1000 && p <= hi*1000, "Set uses the configured expiry +/-5%, rounded up to seconds")
	case 2:
		rt.RedisSetStr(c06Key, "row:1", 5000)
		rt.RedisSetStr("other", "row:2", 5000)
		down := rt.Bool("storeDown")
		if down {
			rt.RedisFail(true)
			rt.Cover("deldown")
		}
		c06Pending = nil
		reqCtx, endRequest := context.WithCancel(ctx)
		err := w.node.DelCtx(reqCtx, c06Key, "other")
		endRequest() // the request that asked for the invalidation is over before the cleaner retries
		rt.RedisFail(false)
		rt.Cover("del")
		rt.Assert(err == nil, "Del reports no error (failed deletions are retried asynchronously)")
		_, a := rt.RedisGetStr(c06Key)
		_, b := rt.RedisGetStr("other")
		if down {
			rt.Assert(c06CleanTasks == 1, "a failed invalidation is handed to the retry cleaner")
			for _, task := range c06Pending {
				rt.Assert(task() == nil, "the retried invalidation succeeds once the store is back, although the original request has ended")
			}
			_, a2 := rt.RedisGetStr(c06Key)
			_, b2 := rt.RedisGetStr("other")
			rt.Assert(!a2 && !b2, "after the retry every given key is invalidated")
		} else {
			rt.Assert(!a && !b, "Del invalidates every given key")
			rt.Assert(c06CleanTasks == 0, "no retry without failure")
		}
	}
	rt.Assert(rt.RedisPersistentWrites() == 0, "no persistent key is ever written")
}
