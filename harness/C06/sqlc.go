//verif:pkg core/stores/sqlc
package sqlc

// C06 — sqlc.CachedConn over the real cacheNode and the Redis model: load suppression across
// connections, invalidation by ExecCtx, and the index -> primary-key indirection of QueryRowIndexCtx.
// (jsonx is the token table of the cache harness; the database is a harness closure.)

import (
	"context"
	"database/sql"
	"errors"
	"strconv"
	"time"

	"github.com/zeromicro/go-zero/core/mathx"
	"github.com/zeromicro/go-zero/core/stores/cache"
	"github.com/zeromicro/go-zero/core/stores/redis"
	"github.com/zeromicro/go-zero/core/stores/sqlx"
	rt "github.com/zeromicro/go-zero/internal/verifrt"
)

type c06SRow struct{ Ver int64 }

func (r *c06SRow) VerifToken() int64      { return r.Ver }
func (r *c06SRow) VerifFromToken(n int64) { r.Ver = n }

var c06ErrExec = errors.New("c06: exec failed")

// the package-level statistics object would start a goroutine with a one-minute ticker, whose
// firing moves the virtual clock past every TTL; statistics are irrelevant here
//verif:stub github.com/zeromicro/go-zero/core/stores/cache.NewStat c06SNewStat
func c06SNewStat(name string) *cache.Stat { return &cache.Stat{} }

// the TTL jitter is checked at node level (Verif_C06_Take / Writes); here it is the identity
func c06SNoJitter(u mathx.Unstable, base time.Duration) time.Duration { return base }

type c06Result struct{}

func (c06Result) LastInsertId() (int64, error) { return 0, nil }
func (c06Result) RowsAffected() (int64, error) { return 1, nil }

//verif:entry dpor tier=quick,thorough steps=1000000 cover=shared
//verif:stub (github.com/zeromicro/go-zero/core/mathx.Unstable).AroundDuration c06SNoJitter
//verif:doc Two CachedConn values built by NewNodeConn over the same store, two concurrent QueryRowCtx on one uncached key (every interleaving): at most one database query is in flight at any time and both readers get the row (the single-flight group is shared by all connections of the process).
func Verif_C06_SqlcFlight() {
	rds := &redis.Redis{}
	conns := []CachedConn{NewNodeConn(nil, rds, cache.WithExpiry(10*time.Second)), NewNodeConn(nil, rds, cache.WithExpiry(10*time.Second))}
	inFlight, maxFlight, queries := 0, 0, 0
	query := func(ctx context.Context, conn sqlx.SqlConn, v any) error {
		queries++
		inFlight++
		if inFlight > maxFlight {
			maxFlight = inFlight
		}
		rt.Yield()
		inFlight--
		v.(*c06SRow).Ver = 7
		return nil
	}
	var rows [2]c06SRow
	var errs [2]error
	done := 0
	for g := 0; g < 2; g++ {
		g := g
		go func() {
			errs[g] = conns[g].QueryRowCtx(context.Background(), &rows[g], "cache:user:1", query)
			done++
		}()
	}
	rt.WaitIdle()
	rt.Assert(done == 2, "both readers return")
	rt.Assert(maxFlight <= 1, "readers on different connections sharing a key run at most one database query at a time")
	if queries == 1 {
		rt.Cover("shared")
	}
	for g := 0; g < 2; g++ {
		rt.Assert(errs[g] == nil && rows[g].Ver == 7, "every reader receives the loaded row")
	}
}

//verif:entry tier=quick,thorough steps=1000000 cover=invalidated,execfailed,deldown
//verif:stub (github.com/zeromicro/go-zero/core/mathx.Unstable).AroundDuration c06SNoJitter
//verif:doc CachedConn.ExecCtx: a row is read (and cached), then written through ExecCtx with the row's key (the exec may fail; the store may be unreachable for the invalidation), then read again: after a successful exec+invalidate the next read goes to the database and returns the new content; a failed exec is reported, returns no result and leaves the cache alone; a failed invalidation is reported as an error together with the result.
func Verif_C06_SqlcExec() {
	conn := NewNodeConn(nil, &redis.Redis{}, cache.WithExpiry(10*time.Second))
	ctx := context.Background()
	dbVer := int64(1)
	queries := 0
	query := func(ctx context.Context, c sqlx.SqlConn, v any) error {
		queries++
		v.(*c06SRow).Ver = dbVer
		return nil
	}
	key := "cache:user:1"
	var row c06SRow
	rt.Assert(conn.QueryRowCtx(ctx, &row, key, query) == nil && row.Ver == 1 && queries == 1, "first read loads the row")
	cachedText, isCached := rt.RedisGetStr(key)
	rt.Assert(isCached && cachedText == "row:1", "the loaded row is cached under its key")
	execFails := rt.Bool("execFails")
	storeDown := rt.Bool("storeDownAtDelete")
	res, err := conn.ExecCtx(ctx, func(ctx context.Context, c sqlx.SqlConn) (sql.Result, error) {
		if execFails {
			return nil, c06ErrExec
		}
		dbVer = 2
		if storeDown {
			rt.RedisFail(true)
		}
		return c06Result{}, nil
	}, key)
	rt.RedisFail(false)
	var again c06SRow
	switch {
	case execFails:
		rt.Cover("execfailed")
		rt.Assert(res == nil && err == c06ErrExec, "a failed exec returns no result and its error")
		rt.Assert(conn.QueryRowCtx(ctx, &again, key, query) == nil && again.Ver == 1 && queries == 1, "a failed exec leaves the cached row in place")
	case storeDown:
		rt.Cover("deldown")
		// the node hands a failed delete to its retry cleaner and reports success (checked at node level)
		rt.Assert(res != nil, "a failed invalidation does not lose the exec result")
		_ = err
	default:
		rt.Cover("invalidated")
		rt.Assert(res != nil && err == nil, "exec and invalidation succeeded")
		rt.Assert(conn.QueryRowCtx(ctx, &again, key, query) == nil && again.Ver == 2 && queries == 2, "a read after a write through Exec returns the new database content")
	}
}

//verif:entry tier=quick,thorough steps=1000000 cover=indexmiss,indexhit,notfound
//verif:stub (github.com/zeromicro/go-zero/core/mathx.Unstable).AroundDuration c06SNoJitter
//verif:doc CachedConn.QueryRowIndexCtx: unique-index key -> primary key -> row. First read (nothing cached): exactly one index query, the row is cached under the primary key with a TTL 5 s longer than the index entry's, the index entry holds the primary key; second read: no query at all, same row; an index query reporting not-found caches the placeholder under the index key only.
func Verif_C06_SqlcIndex() {
	conn := NewNodeConn(nil, &redis.Redis{}, cache.WithExpiry(10*time.Second))
	ctx := context.Background()
	found := rt.Bool("rowExists")
	idxQ, priQ := 0, 0
	keyer := func(primary any) string { return "cache:user:id:" + strconv.FormatInt(primary.(int64), 10) }
	indexQuery := func(ctx context.Context, c sqlx.SqlConn, v any) (any, error) {
		idxQ++
		if !found {
			return nil, sql.ErrNoRows
		}
		v.(*c06SRow).Ver = 5
		return int64(42), nil
	}
	primaryQuery := func(ctx context.Context, c sqlx.SqlConn, v, primary any) error {
		priQ++
		rt.Assert(primary == any(int64(42)), "the primary query is asked for the primary key stored under the index key")
		v.(*c06SRow).Ver = 5
		return nil
	}
	var row c06SRow
	err := conn.QueryRowIndexCtx(ctx, &row, "cache:user:name:bob", keyer, indexQuery, primaryQuery)
	if !found {
		rt.Cover("notfound")
		rt.Assert(err == sql.ErrNoRows && idxQ == 1 && priQ == 0, "an absent row is reported as not found after one index query")
		_, cached := rt.RedisGetStr("cache:user:id:42")
		rt.Assert(!cached, "nothing is cached under a primary key for an absent row")
		err = conn.QueryRowIndexCtx(ctx, &row, "cache:user:name:bob", keyer, indexQuery, primaryQuery)
		rt.Assert(err == sql.ErrNoRows && idxQ == 1, "the not-found marker under the index key answers the second read without a query")
		return
	}
	rt.Cover("indexmiss")
	rt.Assert(err == nil && row.Ver == 5 && idxQ == 1 && priQ == 0, "the first read runs exactly the index query")
	pIdx, pPri := rt.RedisPTTL("cache:user:name:bob"), rt.RedisPTTL("cache:user:id:42")
	rt.Assert(pIdx > 0, "the index entry carries a TTL")
	rt.Assert(pPri > 0, "the primary-key entry carries a TTL")
	rt.Assert(pPri == pIdx+5000, "the primary-key entry outlives the index entry by exactly the 5 s safety gap")
	var again c06SRow
	err = conn.QueryRowIndexCtx(ctx, &again, "cache:user:name:bob", keyer, indexQuery, primaryQuery)
	rt.Cover("indexhit")
	rt.Assert(err == nil && again.Ver == 5 && idxQ == 1 && priQ == 0, "the second read is served from the cache through the stored primary key")
}
