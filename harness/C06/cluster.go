//verif:pkg core/stores/cache
package cache

// C06 — multi-node cacheCluster: every operation on a key is dispatched to the node that owns the
// key on the consistent-hash ring (so a read, a write and an invalidation of one key always meet on
// the same node). Nodes are recording fakes; the ring is the real hash.ConsistentHash with a harness
// hash function that fixes the placement.

import (
	"context"
	"time"

	"github.com/zeromicro/go-zero/core/hash"
	rt "github.com/zeromicro/go-zero/internal/verifrt"
)

type c06Call struct{ op, key string }

type c06FakeNode struct {
	name  string
	calls []c06Call
}

func (n *c06FakeNode) rec(op string, keys ...string) {
	for _, k := range keys {
		n.calls = append(n.calls, c06Call{op, k})
	}
}
func (n *c06FakeNode) Del(keys ...string) error                         { n.rec("del", keys...); return nil }
func (n *c06FakeNode) DelCtx(ctx context.Context, keys ...string) error { n.rec("del", keys...); return nil }
func (n *c06FakeNode) Get(key string, val any) error                    { n.rec("get", key); return nil }
func (n *c06FakeNode) GetCtx(ctx context.Context, key string, val any) error {
	n.rec("get", key)
	return nil
}
func (n *c06FakeNode) IsNotFound(err error) bool     { return false }
func (n *c06FakeNode) Set(key string, val any) error { n.rec("set", key); return nil }
func (n *c06FakeNode) SetCtx(ctx context.Context, key string, val any) error {
	n.rec("set", key)
	return nil
}
func (n *c06FakeNode) SetWithExpire(key string, val any, expire time.Duration) error {
	n.rec("setx:"+expire.String(), key)
	return nil
}
func (n *c06FakeNode) SetWithExpireCtx(ctx context.Context, key string, val any, expire time.Duration) error {
	n.rec("setx:"+expire.String(), key)
	return nil
}
func (n *c06FakeNode) Take(val any, key string, query func(val any) error) error {
	n.rec("take", key)
	return nil
}
func (n *c06FakeNode) TakeCtx(ctx context.Context, val any, key string, query func(val any) error) error {
	n.rec("take", key)
	return nil
}
func (n *c06FakeNode) TakeWithExpire(val any, key string, query func(val any, expire time.Duration) error) error {
	n.rec("takex", key)
	return nil
}
func (n *c06FakeNode) TakeWithExpireCtx(ctx context.Context, val any, key string, query func(val any, expire time.Duration) error) error {
	n.rec("takex", key)
	return nil
}

// placement: node labels "n1"+i / "n2"+i and keys hash to fixed ring positions; anything that is
// not one of the known strings (e.g. the representation of a destination value) lands elsewhere
func c06Hash(data []byte) uint64 {
	switch string(data) {
	case "n10":
		return 100
	case "n20":
		return 200
	case "ka":
		return 50 // owned by n1
	case "kb":
		return 150 // owned by n2
	case "kc":
		return 250 // wraps around: owned by n1
	}
	return 160 // owned by n2
}

//verif:stub github.com/zeromicro/go-zero/core/lang.Repr c06Repr
func c06Repr(v any) string {
	switch x := v.(type) {
	case string:
		return x
	case *c06FakeNode:
		return x.name
	}
	return "<value>"
}

//verif:entry tier=quick,thorough steps=1000000 maporder=perm cover=single,multi,wrap
//verif:doc cacheCluster over the real consistent-hash ring (2 nodes, fixed placement) with recording nodes: 3 operations, each symbolically Take / TakeWithExpire / Get / Set / SetWithExpire / Del(one key) / Del(two or three keys) on keys from {ka, kb, kc}: every operation reaches exactly the node that owns its key, exactly once, as the same operation with the same requested expiry - so reads, writes and invalidations of a key always meet on the same node - and a multi-key Del delivers each key to its owner.
func Verif_C06_Cluster() {
	n1, n2 := &c06FakeNode{name: "n1"}, &c06FakeNode{name: "n2"}
	d := hash.NewCustomConsistentHash(1, c06Hash)
	d.AddWithReplicas(n1, 1)
	d.AddWithReplicas(n2, 1)
	cc := cacheCluster{dispatcher: d, errNotFound: c06ErrNotFound}
	owner := map[string]*c06FakeNode{"ka": n1, "kb": n2, "kc": n1}
	keys := []string{"ka", "kb", "kc"}
	ctx := context.Background()
	var row c06Row
	want := map[*c06FakeNode][]c06Call{}
	for i := 0; i < 3; i++ {
		k := keys[rt.Choose("key", 3)]
		if k == "kc" {
			rt.Cover("wrap")
		}
		op := rt.Choose("op", 7)
		switch op {
		case 0:
			cc.TakeCtx(ctx, &row, k, func(any) error { return nil })
			want[owner[k]] = append(want[owner[k]], c06Call{"take", k})
		case 1:
			cc.TakeWithExpireCtx(ctx, &row, k, func(any, time.Duration) error { return nil })
			want[owner[k]] = append(want[owner[k]], c06Call{"takex", k})
		case 2:
			cc.GetCtx(ctx, k, &row)
			want[owner[k]] = append(want[owner[k]], c06Call{"get", k})
		case 3:
			cc.SetCtx(ctx, k, &row)
			want[owner[k]] = append(want[owner[k]], c06Call{"set", k})
		case 4:
			cc.SetWithExpireCtx(ctx, k, &row, 90*time.Second)
			want[owner[k]] = append(want[owner[k]], c06Call{"setx:" + (90 * time.Second).String(), k})
		case 5:
			rt.Cover("single")
			cc.DelCtx(ctx, k)
			want[owner[k]] = append(want[owner[k]], c06Call{"del", k})
		case 6:
			rt.Cover("multi")
			ks := keys[:2+rt.Choose("delKeys", 2)]
			cc.DelCtx(ctx, ks...)
			for _, x := range ks {
				want[owner[x]] = append(want[owner[x]], c06Call{"del", x})
			}
		}
	}
	for _, n := range []*c06FakeNode{n1, n2} {
		rt.Assert(len(n.calls) == len(want[n]), "every operation reaches the node that owns its key exactly once, and no other node")
		for i := 0; i < len(n.calls) && i < len(want[n]); i++ {
			rt.Assert(n.calls[i] == want[n][i], "reads, writes and invalidations of a key are dispatched to the key's owner")
		}
	}
}
