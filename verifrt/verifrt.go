// Package verifrt is the harness runtime of the go-zero verification framework (/verif).
// It exists only as an overlay: the symbolic engine (gosym) intercepts every function below as an
// intrinsic; compiled natively (go test -overlay) the same functions read a replay file, so one
// harness file serves both as symbolic harness and as native replay.
package verifrt

import (
	"encoding/json"
	"fmt"
	"math"
	"os"
	"strconv"
)

type replayFile struct {
	Inputs map[string]string `json:"inputs"`
}

var (
	rf       *replayFile
	counters = map[string]int{}
	Failures []string
	Observed []string
	nowNs    int64 = 1700000000 * 1e9
)

func load() {
	if rf != nil {
		return
	}
	rf = &replayFile{Inputs: map[string]string{}}
	if p := os.Getenv("VERIF_REPLAY"); p != "" {
		b, err := os.ReadFile(p)
		if err != nil {
			panic(err)
		}
		if err := json.Unmarshal(b, rf); err != nil {
			panic(err)
		}
	}
}

func next(label string) (string, bool) {
	load()
	n := counters[label]
	counters[label] = n + 1
	name := label
	if n > 0 {
		name = fmt.Sprintf("%s#%d", label, n)
	}
	v, ok := rf.Inputs[name]
	return v, ok
}

// Reset clears per-run state (native replay of several files in one process).
func Reset() { rf = nil; counters = map[string]int{}; Failures = nil; Observed = nil }

func Int(name string, lo, hi int64) int64 {
	v, ok := next(name)
	if !ok {
		return lo
	}
	n, _ := strconv.ParseInt(v, 10, 64)
	return n
}
func Int64(name string) int64 {
	v, _ := next(name)
	n, _ := strconv.ParseInt(v, 10, 64)
	return n
}
func Uint64(name string) uint64 {
	v, _ := next(name)
	n, _ := strconv.ParseUint(v, 10, 64)
	return n
}
func Uint32(name string) uint32 { return uint32(Uint64(name)) }
func Byte(name string) byte     { return byte(Uint64(name)) }
func Bool(name string) bool {
	v, _ := next(name)
	return v == "1" || v == "true"
}
func Float(name string, lo, hi float64) float64 {
	v, ok := next(name)
	if !ok {
		return lo
	}
	return parseRat(v)
}
func FloatAny(name string) float64 {
	v, _ := next(name)
	var sign, exp, man uint64
	if n, _ := fmt.Sscanf(v, "(fp #b%b #b%b #x%x)", &sign, &exp, &man); n == 3 {
		return math.Float64frombits(sign<<63 | exp<<52 | man)
	}
	switch {
	case len(v) >= 6 && v[:6] == "(_ NaN":
		return math.NaN()
	case len(v) >= 6 && v[:6] == "(_ +oo":
		return math.Inf(1)
	case len(v) >= 6 && v[:6] == "(_ -oo":
		return math.Inf(-1)
	}
	return 0
}
func parseRat(v string) float64 {
	for i := 0; i < len(v); i++ {
		if v[i] == '/' {
			a, _ := strconv.ParseFloat(v[:i], 64)
			b, _ := strconv.ParseFloat(v[i+1:], 64)
			return a / b
		}
	}
	f, _ := strconv.ParseFloat(v, 64)
	return f
}
func Atom(name string) string {
	v, _ := next(name)
	if len(v) > 0 && v[0] == '=' {
		return v[1:] // the model says this atom equals a concrete string (e.g. "" or a declared option)
	}
	return "atom" + v
}
func Bytes(name string, n int) []byte {
	out := make([]byte, n)
	for i := range out {
		v, _ := next(fmt.Sprintf("%s[%d]", name, i))
		x, _ := strconv.ParseUint(v, 10, 8)
		out[i] = byte(x)
	}
	return out
}
func Choose(name string, n int) int  { return int(Int(name, 0, int64(n-1))) }
func Concrete(x int64) int64         { return x }
func Assume(b bool) {
	if !b {
		panic("verifrt: assumption violated in native replay")
	}
}
func Assert(b bool, msg string) {
	if !b {
		Failures = append(Failures, msg)
		fmt.Println("VERIF-ASSERT-FAIL:", msg)
	}
}
func Cover(label string)            {}
func CoverIf(c bool, label string)  {}
func SetNow(ns int64)               { nowNs = ns }
func Now() int64                    { return nowNs }
func Advance(d int64)               { nowNs += d }
func Yield()                        {}
func WaitIdle()                     {}
func Live() int                     { return 0 }
func Observe(name string, v any)    { Observed = append(Observed, fmt.Sprintf("%s=%v", name, v)) }
func Tier() int                     { t, _ := strconv.Atoi(os.Getenv("VERIF_TIER_N")); return t }
func Note(msg string)               {}
func SymChan(ch any, capacity, count int64) {}
func ChanLen(ch any) int64          { return 0 }
func IsSymbolic() bool              { return false }

// And/Or/Ite are branch-free connectives for oracles (no path fork in the engine).
func And(a, b bool) bool { return a && b }
func Or(a, b bool) bool  { return a || b }
func Ite(c bool, a, b int64) int64 {
	if c {
		return a
	}
	return b
}
func IteF(c bool, a, b float64) float64 {
	if c {
		return a
	}
	return b
}

// Redis model access (engine only; natively the harnesses that use them are not replayable).
func RedisSetStr(key, val string, pttlMs int64)       { panic("verifrt: redis model is engine-only") }
func RedisSetInt(key string, n int64, pttlMs int64)   { panic("verifrt: redis model is engine-only") }
func RedisGetStr(key string) (string, bool)           { panic("verifrt: redis model is engine-only") }
func RedisGetInt(key string) (int64, bool)            { panic("verifrt: redis model is engine-only") }
func RedisPTTL(key string) int64                      { panic("verifrt: redis model is engine-only") }
func RedisFail(on bool)                               {}
func RedisFailAt(n int)                               {}
func RedisCalls() int                                 { return 0 }
func RedisScriptRuns() int                            { return 0 }
func RedisWrites() int                                { return 0 }
func RedisPersistentWrites() int                      { return 0 }
func RedisKeys() int                                  { return 0 }
