#!/usr/bin/env python3
"""usage: seed_prompt.py <Cxx> <n>  -> creates scratch worktree /tmp/wt_seed_<Cxx>_<n> and prints the agent prompt (property text only)."""
import json, subprocess, sys
pid, n = sys.argv[1], sys.argv[2]
wt = f'/tmp/wt_seed_{pid}_{n}'
subprocess.run(['git','-C','/repo','worktree','add','-q','--detach',wt,'HEAD'],check=True)
p = [json.loads(l) for l in open('/verif/properties.jsonl') if json.loads(l)['id']==pid][0]
out = f'/tmp/seed_{pid}_{n}'
print(f"""You are helping test a verification effort for the Go library zeromicro/go-zero. Work ONLY inside your own scratch git worktree of the repository at {wt} (do not touch /repo or /verif, do not read anything under /verif). Every shell call needs: export GOFLAGS=-mod=mod GOPROXY=off GOSUMDB=off GOTOOLCHAIN=local (the sandbox is offline). Always wrap go test in `timeout 600` and pass `-timeout 300s`.

Semantic property of go-zero that is supposed to hold:

TITLE: {p['title']}
STATEMENT: {p['statement']}
QUANTIFIED OVER: {p['quantifier']['text']}

Task: produce TWO different, realistic source changes (the kind of plausible mistake a maintainer could make in a refactoring or "optimisation": an off-by-one, a dropped/misplaced guard, a wrong variable, state updated in the wrong order, a condition that is slightly too weak/strong, two sites that each look fine alone) to the non-test Go code of go-zero, each of which BREAKS the property above while the repository still compiles and the EXISTING test suite of the touched package(s) still passes. Prefer changes that need something specific to manifest (a particular interleaving, a fault at a particular point, a multi-step sequence of operations, an unusual input/boundary value, or two cooperating sites) rather than ones ordinary use would expose at once. The two changes should be in different functions/mechanisms behind the property if possible. Do not change test files, do not add build tags, keep each change small (a few lines).

For each change k in {{1,2}} create directory {out}/k/ containing:
  - patch.diff : `git diff` of the change (relative to the worktree HEAD; must apply with `git apply` at the repo root),
  - zz_seed_demo_test.go : a Go test file (package = the package of the directory it will be dropped into, test function name containing `Seed`) that FAILS with the change applied and PASSES on the unchanged code; it should be deterministic (or fail with overwhelming probability within 60 s),
  - demo_path.txt : the repo-relative directory the demo test file must be copied into (e.g. core/syncx),
  - meta.json : {{"property": "{pid}", "summary": "<what was changed and why it breaks the property>", "needs": "<what is needed for it to manifest>", "packages_tested": "<go test package patterns you ran, e.g. ./core/syncx/>"}}.
You must yourself verify, in your worktree: (a) `go build ./...` succeeds with the change; (b) the existing tests of the touched package(s) pass with the change (run them, e.g. `go test -count=1 ./core/syncx/`; if an existing test fails, pick a different change); (c) the demo test fails with the change and passes without it. Reset the worktree (`git checkout -- . && git clean -fdq`) between the two changes and at the end. Do NOT commit anything. Finish by replying with a 5-line summary per change (file/function touched, what it needs to manifest, test commands run and their results).""")
