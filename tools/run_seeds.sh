#!/bin/bash
# Re-runs every stored seed (/verif/seeded/*/patch.diff) against the registered quick check of its
# property and rewrites /verif/seeded/RESULTS.md. /repo is restored after each one.
cd /verif
# all seeds are applied to a scratch worktree of /repo's HEAD, never to /repo itself
WT=/tmp/wt_run_seeds_$$
git -C /repo worktree add -q --detach $WT HEAD || exit 2
trap 'git -C /repo worktree remove --force $WT >/dev/null 2>&1' EXIT
TIER=${TIER:-quick}
out=/verif/seeded/RESULTS.md
echo "| seed | property | quick check | first violated assertion |" > $out.tmp
echo "|---|---|---|---|" >> $out.tmp
for d in seeded/*/; do
  id=$(basename $d)
  [ -n "${1:-}" ] && [[ "$id" != $1* ]] && { grep "^| $id " $out >> $out.tmp 2>/dev/null; continue; }
  # ONLY_MISSING=1: keep the rows already in RESULTS.md, run only the seeds that have none
  [ -n "${ONLY_MISSING:-}" ] && grep -q "^| $id " $out 2>/dev/null && { grep "^| $id " $out >> $out.tmp; continue; }
  prop=$(python3 -c "import json;print(json.load(open('$d/meta.json'))['property'])")
  git -C $WT apply /verif/$d/patch.diff || { echo "| $id | $prop | PATCH DOES NOT APPLY | |" >> $out.tmp; continue; }
  /verif/bin/gosym check $prop --tier $TIER --no-evidence --repo $WT > /tmp/seedrun.log 2>&1; rc=$?
  git -C $WT checkout -q -- .
  msg=$(grep -m1 -A1 '^VIOLATION' /tmp/seedrun.log | tail -1 | sed 's/^ *//; s/|/\\|/g')
  case $rc in 1) v="DETECTED";; 0) v="missed";; *) v="inconclusive (exit $rc)"; msg=$(grep -m1 '^INCONCLUSIVE' /tmp/seedrun.log | sed 's/|/\\|/g');; esac
  echo "| $id | $prop | $v | $msg |" >> $out.tmp
  python3 - "$d/meta.json" "$rc" "$msg" <<'PY'
import json,sys
p,rc,msg=sys.argv[1:4]
m=json.load(open(p)); m['check_quick_exit']=int(rc); m['check_quick_message']=msg; m.pop('check_quick_first_line',None)
json.dump(m,open(p,'w'),indent=1)
PY
  echo "$id: $v $msg"
done
mv $out.tmp $out
