#!/bin/bash
# usage: confirm_seed.sh <seed dir from agent, e.g. /tmp/seed_C16/2> <dest id, e.g. C16-safemap-set> <pkg test patterns...>
# Confirms in a scratch worktree that (a) the patch applies and builds, (b) the existing tests of the
# given packages pass with the patch, (c) the demo fails with the patch and (d) passes without it.
# Then stores the seed under /verif/seeded/<dest>/ and runs the registered quick check against it.
set -u
export GOFLAGS=-mod=mod GOPROXY=off GOSUMDB=off GOTOOLCHAIN=local
SRC=$1; DEST=$2; shift 2; PKGS="$@"
PROP=$(python3 -c "import json;print(json.load(open('$SRC/meta.json'))['property'])")
WT=/tmp/wt_confirm_$$
git -C /repo worktree add -q --detach $WT HEAD || exit 2
cleanup() { git -C /repo worktree remove --force $WT >/dev/null 2>&1; }
trap cleanup EXIT
DEMODIR=$(cat $SRC/demo_path.txt | tr -d '\n ')
cd $WT
git apply $SRC/patch.diff || { echo "PATCH DOES NOT APPLY"; exit 2; }
timeout 900 go build ./... >/tmp/confirm_build_$$.log 2>&1 || { echo "BUILD FAILS"; tail -5 /tmp/confirm_build_$$.log; exit 2; }
T_EXIST=pass
timeout 1500 go test -count=1 -timeout 600s $PKGS >/tmp/confirm_exist_$$.log 2>&1 || T_EXIST=fail
cp $SRC/zz_seed_demo_test.go $DEMODIR/
D_WITH=pass
timeout 600 go test -count=1 -timeout 300s -run 'Seed|seed|Zz' ./$DEMODIR/ >/tmp/confirm_with_$$.log 2>&1 || D_WITH=fail
git checkout -q -- . 
D_WITHOUT=pass
timeout 600 go test -count=1 -timeout 300s -run 'Seed|seed|Zz' ./$DEMODIR/ >/tmp/confirm_without_$$.log 2>&1 || D_WITHOUT=fail
echo "existing tests with patch: $T_EXIST; demo with patch: $D_WITH; demo without patch: $D_WITHOUT"
[ $T_EXIST = fail ] && tail -15 /tmp/confirm_exist_$$.log
if [ $T_EXIST = pass ] && [ $D_WITH = fail ] && [ $D_WITHOUT = pass ]; then
  mkdir -p /verif/seeded/$DEST
  cp $SRC/patch.diff /verif/seeded/$DEST/patch.diff
  cp $SRC/zz_seed_demo_test.go /verif/seeded/$DEST/zz_seed_demo_test.go
  # run our check against it
  # the check runs against the scratch worktree (with the patch applied), never against /repo
  git apply /verif/seeded/$DEST/patch.diff
  (cd /verif && /verif/bin/gosym check $PROP --tier quick --no-evidence --repo $WT > /tmp/confirm_check_$$.log 2>&1); RC=$?
  git checkout -q -- .
  DET=$(grep -m1 '^VIOLATION\|^INCONCLUSIVE' /tmp/confirm_check_$$.log)
  MSG=$(grep -m1 -A1 '^VIOLATION' /tmp/confirm_check_$$.log | tail -1 | sed 's/^ *//')
  python3 - "$SRC" "$DEST" "$PKGS" "$RC" "$DET" "$MSG" "$DEMODIR" <<'PY'
import json,sys
src,dest,pkgs,rc,det,msg,demodir=sys.argv[1:8]
m=json.load(open(src+'/meta.json'))
out={'property':m['property'],'summary':m.get('summary'),'needs':m.get('needs'),'demo_dir':demodir,
 'confirmed':{'existing_tests_with_patch':'pass: go test -count=1 '+pkgs,'demo_with_patch':'fail','demo_without_patch':'pass',
              'how':'tools/confirm_seed.sh in a scratch worktree of /repo HEAD (removed afterwards)'},
 'check_quick_exit':int(rc),'check_quick_first_line':det,'check_quick_message':msg}
json.dump(out,open('/verif/seeded/'+dest+'/meta.json','w'),indent=1)
print('check exit',rc,det,'|',msg)
PY
else
  echo "SEED REJECTED"
fi
rm -f /tmp/confirm_*_$$.log
