#!/usr/bin/env python3
# Adds to seeded/RESULTS.md a row for every seed that has none yet, from the verdict that
# tools/confirm_seed.sh recorded in its meta.json (exit code and first violated assertion of the
# registered quick check run against the patched scratch worktree). Rows stay sorted by seed id.
import json, glob, os
out = '/verif/seeded/RESULTS.md'
lines = open(out).read().splitlines()
head, rows = lines[:2], {l.split('|')[1].strip(): l for l in lines[2:] if l.startswith('|')}
for mp in glob.glob('/verif/seeded/*/meta.json'):
    sid = os.path.basename(os.path.dirname(mp))
    if sid in rows:
        continue
    m = json.load(open(mp))
    rc = m.get('check_quick_exit')
    v = {1: 'DETECTED', 0: 'missed'}.get(rc, 'inconclusive (exit %s)' % rc)
    rows[sid] = '| %s | %s | %s | %s |' % (sid, m['property'], v, (m.get('check_quick_message') or '').replace('|', '\\|'))
open(out, 'w').write('\n'.join(head + [rows[k] for k in sorted(rows)]) + '\n')
print(len(rows), 'rows')
