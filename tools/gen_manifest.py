#!/usr/bin/env python3
"""Regenerates /verif/MANIFEST.json from the table below (kept valid at all times)."""
import json, subprocess

BASE = json.load(open('/root/.vp/BASELINE.json'))['cmd']

CLAIMED = {
 # id: (design_ref, level text, level_note, technique)
 'C12': ('DESIGN.md §4 C12',
         'Bounded symbolic execution of the real setTask/moveTask/removeTask/onTick/scanAndRunTasks code: wheel size, tickedPos, delays (whole intervals and sub-interval remainders) and operation scripts are solver-enumerated/symbolic; every tick is checked against a ghost due-tick oracle. Holds for all values inside the stated bounds; nothing is claimed outside them.',
         'go/ssa translation, the gosym interpreter, z3; wheel driven without its run() goroutine (run() serialises exactly these calls); SafeMap/list executed from source; sync.RWMutex modelled natively.',
         'SSA symbolic execution + SMT (z3), stateless DFS over decision vectors'),
 'C01': ('DESIGN.md §4 C01',
         'Bounded symbolic execution of the real googleBreaker.accept (admission law, forced probe, sustained failure: window summary, clock and random draw symbolic; floats in the E2 real relaxation), history() over symbolic bucket contents, and exact accounting of all 10 Do*/Allow* entry points of the real NewBreaker() object - directly and through the package-level helpers of breakers.go (registry) - for every request outcome/fallback/context combination; the REST BreakerHandler and the zRPC client/server breaker interceptors over a recording breaker (rejected => 503 / Unavailable and the handler does not run; admitted => exactly one resolution, success iff status < 500; breaker named method+path / target+method / full method; zrpc/internal/codes.Acceptable and serverSideAcceptable evaluated on every gRPC code).',
         'go/ssa translation, gosym, z3; E2 float encoding (monotone rounding with anchors: an over-approximation of IEEE-754, so unsat is a proof and models must reproduce concretely); logging/metrics stubs; 2-goroutine schedules of Do are in the thorough tier only.',
         'SSA symbolic execution + SMT (z3), stateless DFS over decision vectors'),
 'C14': ('DESIGN.md §4 C14',
         'Symbolic execution of the real transactOnConn/transact/TransactCtx with every fault flag a solver variable (begin, k-th statement, body error drawn from the sentinel errors sqlx treats specially, body panic, commit, rollback, connection provider); exactly-once Commit/Rollback, commit-iff-success and error reporting asserted on every path.',
         'go/ssa translation, gosym, z3; harness supplies the beginnable, a recording trans and a pass-through breaker; tracing spans stubbed out; bodies of at most 3 statements.',
         'SSA symbolic execution + SMT (z3), stateless DFS over decision vectors'),
 'C16': ('DESIGN.md §4 C16, Appendix C',
         'Inductive one-step checks from an arbitrary state satisfying the representation invariant for Ring, Queue and SafeMap (deletion counters symbolic around the 10000 migration threshold), bounded symbolic histories for RollingWindow (symbolic clock, interval-aligned oracle), Set, and the in-memory Cache/keyLru with the real TimingWheel goroutine under the engine scheduler (sleep-set reduced interleavings).',
         'go/ssa translation, gosym, z3; invariants as written in DESIGN Appendix C; cache expiry (timing wheel ticks) is C12; jitter stubbed in the cache harness.',
         'SSA symbolic execution + SMT (z3), stateless DFS over decision vectors + scheduler with sleep sets'),
 'C05': ('DESIGN.md §4 C05',
         'syncx.Limit with capacity and occupancy as solver variables (channel in symbolic-counter mode): one TryBorrow/Return/Borrow from an arbitrary state 0<=c<=n, inductive over histories and interleavings; MaxConnsHandler for every n and every number already inside, inner handler returning or panicking; TimeoutLimit.Borrow(timeout) racing with Returns and the timer, TaskRunner (Schedule/ScheduleImmediately/Wait, panicking tasks) and Pool (Get/Put, maxAge, symbolic clock) under all interleavings of 2-4 goroutines.',
         'go/ssa translation, gosym, z3; sync.Mutex/Cond/WaitGroup and channels modelled natively by the engine scheduler; capacity 1..2 and at most 3 tasks/users for TaskRunner/Pool/TimeoutLimit; MapReduce worker caps belong to the C10 harness.',
         'SSA symbolic execution + SMT (z3), channel-as-symbolic-counter induction + scheduler with sleep sets'),
 'C19': ('DESIGN.md §4 C19',
         'Symbolic execution of the real RedisLock.AcquireCtx/ReleaseCtx/SetExpire (go/ssa) together with lockscript.lua and delscript.lua (read from the tree, run by the engine Lua-subset evaluator on a Redis model): one step from an arbitrary state (key absent or held by an arbitrary id with arbitrary remaining lease, clock advance symbolic, lease seconds any uint32, 3 instances), store faults and cancelled contexts, and 3-4 step histories against a ghost (holder, expiry).',
         'go/ssa translation, gosym, Lua-5.1-subset evaluator and single-node Redis model (trusted, engine-native: GET/SET NX PX EX/SETEX/DEL/INCRBY/EXPIRE/TTL, lazy expiry on the virtual clock, scripts atomic), z3; distinct instances have distinct ids (assumption); go-redis/RESP conversions per the documented tables.',
         'SSA symbolic execution + SMT (z3) with a Lua front-end over a Redis model; one-step induction + bounded histories'),
 'C03': ('DESIGN.md §4 C03',
         'Symbolic execution of the real PeriodLimit.TakeCtx/calcExpireSeconds and TokenLimiter.reserveN/AllowN/startMonitor/NewTokenLimiter (go/ssa) together with periodscript.lua and tokenscript.lua (read from the tree, run by the engine Lua evaluator on a Redis model): inductive one-step checks from arbitrary stored state (quota, period, burst, counters, TTLs, clock symbolic; rate case-split 1..8), bounded histories of 3-6 calls by two instances against a reference bucket incl. the window bound sum(granted) <= burst + rate*elapsed, store faults and cancelled contexts.',
         'go/ssa translation, gosym, Lua-subset evaluator + Redis model (trusted), z3; Lua numbers are exact integers/reals (|values| < 2^53 assumed); x/time/rate replaced by its contract (recorded arbitrary answer); callers\' clocks agree with the store clock and are non-decreasing (assumption); whole seconds.',
         'SSA symbolic execution + SMT (z3) with a Lua front-end over a Redis model; one-step induction + bounded histories'),
 'C13': ('DESIGN.md §4 C13',
         'Symbolic execution of the real discov container (OnAdd/OnDelete/addKv/doRemoveKey/removeKv/getValues/notifyChange), cluster.handleWatchEvents/load/handleChanges/calculateChanges, the resolver subset() and the Kubernetes EventHandler: histories of 4-5 watch events and of puts followed by a full reload with keys and values as atoms (equality patterns chosen by the solver), exclusive and non-exclusive subscribers, map iteration order as a decision, against a ghost registry; listeners notified; kube handler publishes exactly the current address set.',
         'go/ssa translation, gosym, z3; atoms (uninterpreted strings with ==, len as an uninterpreted function) for keys/values/IPs; values assumed non-empty; etcd client replaced by a harness fake returning the snapshot; request-timeout context stubbed; exclusive reload snapshots with two new keys for one value excluded (delivery order unspecified); rand.Shuffle = arbitrary swaps.',
         'SSA symbolic execution + SMT (z3), bounded histories over atom strings'),
 'C08': ('DESIGN.md §4 C08, §10.2',
         'Two layers. (1) Pure kernels: fieldOptions.toOptionsWithContext for every option combination and dependency presence (resolved Optional equals the specification table; Range/Options/Default/FromString survive resolution), validateNumberRange/validateValueRange for every float64 (exact SMT FloatingPoint: NaN, infinities, signed zeros, subnormals) and every int64/uint64 against all open/closed combinations, validateValueInOptions over atom strings, parseNumberRange over all bracket bytes. (2) The real reflection-driven traversal (Unmarshaler.Unmarshal -> unmarshalWithFullName -> processField/processNamedField*/processFieldPrimitive*/fillPrimitive/fillWithSameType/fillSlice/fillMap/generateMap, tag parsing, defaults, optional/optional=dep/optional=!dep) executed on an engine-native model of package reflect over four fixed struct types (ranges on int/float64/*int/uint8 with defaults; options on strings/ints with dependencies and defaults; `string`-option fields fed by Go strings or json.Number literals; nested struct, pointer to struct, slice and map): every key present or absent, numbers as symbolic native values (all ints in +-2^40, every float64), json.Number numerals, wrong-kind values or nil; asserted: accepted iff all required fields are supplied and every supplied value satisfies its range/options/dependency, target = supplied values + defaults, never a panic.',
         'go/ssa translation, gosym, z3 (FloatingPoint theory for comparisons). reflect is an engine-native model (TypeOf/ValueOf/New/MakeSlice/MakeMap/Indirect, Type: Kind/Elem/Key/Field/NumField/AssignableTo/Implements/..., Value: Kind/Type/Elem/Field/Set*/Interface/Index/Len/MapKeys/MapIndex/SetMapIndex/Convert/IsNil/IsZero/...) - trusted, any reflect function without a model aborts the run as unsupported; the struct types are fixed (the property quantifies over all types: other type shapes, embedded/anonymous fields, TextUnmarshaler, time.Duration, arrays, env vars, and the YAML/TOML/form/path/header front-ends that only build the input map are outside); map iteration order fixed to insertion order in these entries.',
         'SSA symbolic execution + SMT (z3, exact FloatingPoint for comparisons) over an engine-native reflect model'),
 'C15': ('DESIGN.md §4 C15',
         'Symbolic execution of the real ConsistentHash Add/AddWithReplicas/AddWithWeight/Get/Remove/removeRingNode with the hash function uninterpreted (one fresh symbolic uint64 per distinct input, so every placement and ordering of virtual nodes and probe on the ring is solver-chosen): member-only with collisions allowed; history-independence against a ring rebuilt from the resulting configuration and minimal disruption on add/remove/re-add under pairwise distinct virtual-node hashes.',
         'go/ssa translation, gosym, z3; ring built directly with 1..2 replicas per node (the constructor forces >= 100, identical loop iterations); 2-3 string nodes, 3 operations; lang.Repr = identity on strings; sort.Slice as an oblivious compare-exchange network; relational claims assume collision-free virtual nodes (with collisions the bucket order is history-dependent by design).',
         'SSA symbolic execution + SMT (z3), hash as uninterpreted function, bounded histories'),
 'C07': ('DESIGN.md §4 C07',
         'The real flightGroup.Do/DoEx/createCall/makeCall, lockedGroup.Do/makeCall and ResourceManager.GetResource executed under the engine scheduler for every interleaving (lock / WaitGroup granularity, sleep-set reduced) of 2 (quick) or 3 (thorough) goroutines with keys equal or different, fn returning a value, an error or panicking; logical-clock overlap oracle for shared results, per-key mutual exclusion asserted inside fn, exactly-once own execution for LockedCalls, independence of different keys with one execution blocked forever, create-at-most-once and same-instance for ResourceManager.',
         'go/ssa translation, gosym (schedules are decisions of the DFS; the data is concrete here, so this is in effect bounded systematic schedule exploration of the real code); sync.Mutex/RWMutex/WaitGroup modelled natively; sequentially consistent interleavings at synchronisation points; waiters of a panicked flight observe zero values (outside the statement).',
         'SSA interpretation under an exhaustive scheduler with sleep sets (bounded schedule exploration); solver only for data decisions'),
 'C02': ('DESIGN.md §4 C02',
         'One step of the real adaptiveShedder.Allow / promise.Pass / promise.Fail from an arbitrary shedder state (rolling-window bucket contents, in-flight count and moving average, droppedRecently, overloadTime, CPU load, threshold and clock all symbolic; floats in the E2 real relaxation) against a capacity oracle recomputed by the harness: shed only if (cpu >= threshold or still hot) and in-flight > 10% of capacity; must shed when overloaded with in-flight and average above capacity; never shed with nothing in flight; exact in-flight, window and cool-off state transitions; Disable() yields a shedder that never sheds.',
         'go/ssa translation, gosym, z3; E2 float encoding (over-approximation of IEEE-754 RNE with monotonicity/anchor axioms; Floor/Ceil/Round of integer/constant quotients computed exactly in integers); 2 buckets in quick with pass counts 0..1 and 0..1 latency samples per bucket (thorough: 1..2 buckets with 0..2 samples, 3 buckets with 0..1); the two factors of the capacity estimate (maxPass, minRt) are additionally checked on their own with symbolic pass counts 0..1000 over 2..3 buckets (Verif_C02_Peak); stat.CpuUsage stubbed by a symbolic load; cpuThreshold in 1..999; which buckets a Reduce visits is C16\'s claim (recomputed in the oracle); SheddingHandler and UnarySheddingInterceptor are checked over a recording shedder (exactly one Pass/Fail per admitted request, also on panic; 503 / ResourceExhausted when shed); sheddergroup and the CPU sampler are not covered.',
         'SSA symbolic execution + SMT (z3), one-step check from an arbitrary state, E2 float relaxation'),
 'C06': ('DESIGN.md §4 C06',
         'Symbolic execution of the real cacheNode (TakeCtx/TakeWithExpireCtx/doTake/doGetCache/processCache/setCacheWithNotFound/SetWithExpireCtx/SetCtx/DelCtx), mathx.Unstable.AroundDuration (jitter arithmetic in the E2 float relaxation, random draw symbolic) and the SingleFlight barrier against the Redis model: one cached read from an arbitrary coherent (cache, database) state with symbolic TTL/clock, database failure and a store failure at a symbolic call index; TTL windows (+/-5%, rounded up, >= 1 s, never persistent); writes and invalidation; two concurrent readers under every interleaving (one query in flight, shared result).',
         'go/ssa translation, gosym, z3, Redis model (trusted; Go-level GET/SET EX/SETNX EX/DEL glue of core/stores/redis replaced by the model); jsonx replaced by a token table; expiry in {1 s, 10 s, 7 d}; cache statistics and the retry cleaner\'s timing wheel stubbed; sqlc.CachedConn (ExecCtx/QueryRowIndexCtx) and the multi-node cacheCluster dispatch are not covered.',
         'SSA symbolic execution + SMT (z3) over a Redis model, one-step check from an arbitrary coherent state + scheduler for the 2-reader flight'),
 'C09': ('DESIGN.md §4 C09',
         'Symbolic execution of the real patRouter.Handle/ServeHTTP/methodsAllowed, search.Tree Add/Search/next, pathvar and path.Clean: concrete route tables (literal/variable siblings, shared prefixes, backtracking, several methods) x request paths of 0..3 (quick) / 0..4 (thorough) segments whose bytes are solver variables (every ASCII byte but the slash) x method, against a reference matcher (literal preferred at the first differing segment, exact bindings, 405 with exactly the other matching methods, 404); concrete dirty spellings for path cleaning; registration errors.',
         'go/ssa translation, gosym, z3; 10 tables of 3 routes, segments of 1..2 bytes, bytes < 0x80 (range over string is byte-wise for ASCII), one variable name per position; map iteration order explored as a decision; custom NotFound/NotAllowed handlers not covered.',
         'SSA symbolic execution + SMT (z3) with symbolic path bytes; differential against a reference matcher'),
 'C04': ('DESIGN.md §4 C04',
         'The real REST TimeoutHandler/timeoutWriter, zRPC UnaryTimeoutInterceptor (server), TimeoutInterceptor (client), fx.DoWithTimeout and engine.checkedTimeout executed with the context package from source under the engine scheduler: wrapper, work goroutine, deadline timer and caller cancellation as environment events; the work writes headers/status/body chunks with symbolic contents, yields, then returns, panics or blocks forever. Asserted: deadline no later than caller deadline and now+chosen timeout; the wrapper never waits for work that ignores the deadline (deadlock detection); the client sees exactly the work\'s complete result or exactly the timeout result (503/499, DeadlineExceeded/Canceled), never a mixture, and nothing written later reaches the client; panics re-raised; websocket/SSE exempt; per-method/per-route/per-call timeout selection.',
         'go/ssa translation, gosym scheduler; schedules are explored exhaustively up to 1 preemption (CHESS-style bound; switches at blocking points are free), because the context package alone contributes ~100 scheduling points; durations concrete (1 s default, 0.25-3 s alternatives) since time.Time arithmetic stays concrete; 1 (quick) / 2 (thorough) work operations; Flush/Hijack/Push of the timeout writer are outside.',
         'SSA interpretation under a preemption-bounded exhaustive scheduler (bounded schedule exploration); solver for symbolic response data and timeout selection arithmetic'),
 'C10': ('DESIGN.md §4 C10',
         'The real MapReduce/MapReduceVoid (buildSource, executeMappers, mapReduceWithPanicChan, guardedWriter, onceChan, once/finish/cancel) with generator, dispatcher, mapper workers, reducer and caller as goroutines under the engine scheduler; item values are solver variables and the reducer computes a weighted sum that changes for every value when an item is lost or duplicated. Without faults: every item mapped exactly once, every written value reduced exactly once, exact result / ErrReduceNoOutput / nil for Void, mapper gauge <= workers, no goroutine left. With one fault (panic of generator/mapper/reducer at invocation j, cancel(err)/cancel(nil) by mapper/reducer, context ended at an arbitrary scheduling point, mapper that ignores the context and stalls): the call returns without deadlock exactly the cancel error / ErrCancelWithNil / a context error or re-raises exactly the user panic, a nil error implies complete work, and once the user functions have returned no goroutine remains.',
         'go/ssa translation, gosym scheduler. ALL interleavings at synchronisation points (sleep-set reduced) for (items, workers) in {0,1,2}x{1}, {0,1}x{2} without faults and 1x1 (thorough: 1x2, 2x1) with one fault; wider configurations (2-3 items x 2 workers, context end) under a CHESS-style preemption bound of 1 (quick) / 2 (thorough). The data (item values) is the only solver-decided part; the rest is bounded systematic schedule exploration of the real code. The caller context is a minimal context.Context implementation (Done channel + Err). Two genuine defects of the same root (finish() closes the output channel under a reducer that is inside writer.Write) are listed as known findings; ForEach/Finish/FinishVoid/MapReduceChan are covered by a smaller harness; two simultaneous faults are outside.',
         'SSA interpretation under an exhaustive scheduler with sleep sets / preemption bound (bounded schedule exploration of the real code); solver (z3) for the symbolic item values'),
 'C11': ('DESIGN.md §4 C11',
         'The real PeriodicalExecutor (Add/addAndCheck/backgroundFlush/Flush/Wait/executeTasks/hasTasks/shallQuit/enterExecution) over the real bulkContainer and chunkContainer, with the caller (Adds, optional Flush, Wait), a concurrent producer, the background flusher and a clock/ticker environment goroutine under the engine scheduler; the virtual clock advances by one interval or by more than idleRound intervals per tick, so the flusher quitting and being restarted by a later Add is explored; optionally one task makes the callback panic. Asserted: no task reaches the callback twice; never an empty batch; when Wait returns every task the caller added before it has been executed (callback returned); after a final Wait every accepted task was executed exactly once; a panicking callback loses exactly its own batch.',
         'go/ssa translation, gosym scheduler with a CHESS-style preemption bound: all schedules with at most 1 preemption (a thorough-only entry uses 2 on the smallest configuration); threshold 1..2, 2 own + 1 concurrent task and 0..1 ticks in quick (0..2 own, 1..2 concurrent, 0..2 ticks in thorough); reflect.ValueOf/Kind/Len modelled natively; newTicker replaced by a harness ticker with a buffer of 1 (ticks dropped when full, like time.Ticker); a spy container forwards to the real one and records who removed each task. The data is concrete, so this is bounded systematic schedule exploration of the real code. One genuine defect is a known finding (Wait misses a batch that a concurrent producer has taken out of the container but not yet handed over); sqlx.BulkInserter is not covered.',
         'SSA interpretation under a preemption-bounded exhaustive scheduler (bounded schedule exploration of the real code)'),
 'C18': ('DESIGN.md §4 C18',
         'Gate logic, arithmetic and codec kernels with ideal cryptography: (1) the real Authorize middleware + token.TokenParser (ParseToken/doParseToken key function/history) with the jwt library replaced by its contract at request.ParseFromRequest: over two consecutive requests with tokens signed by the current / previous / another / no secret, HMAC or not, time-valid or not, MapClaims or not, the handler runs iff the token verifies under the current or configured previous secret, else 401 and the handler is not called; the handler sees exactly the non-standard claims; only configured secrets are used as keys. (2) the real VerifySignature for every int64 timestamp (wrap-around included): invalid-header / wrong-time / pass / invalid-token exactly as the mathematical window and HMAC equality dictate, and the HMAC covers exactly (timestamp, method, path, raw query, body digest). (3) the real LimitContentSecurityHandler gate for every parse/verify outcome, strict and lenient. (4) the real pkcs5Padding/Unpadding, ECB CryptBlocks, EcbEncrypt/EcbDecrypt, LimitCryptionHandler/decryptBody/cryptionResponseWriter under an ideal block cipher (a permutation of fresh solver bytes) and an ideal base64: request bodies of 1..33 arbitrary bytes reach the handler decrypted and responses round-trip.',
         'go/ssa translation, gosym, z3. Cryptographic strength (unforgeability of HMAC/JWT, AES, RSA) is NOT claimed: jwt parse+verify, HMAC-SHA256, SHA-256 body digest, AES and base64 are ideal stubs with their contracts; decimal parsing of the timestamp is an arbitrary int64 or an error; ParseContentSecurity (RSA decryption of the secret, header syntax) is replaced by an arbitrary outcome; now in {0, 1.7e9, 2^33} s and tolerance in {0,1,300,2^31} s (the timestamp itself ranges over all int64). The empty plaintext does not round-trip at codec level (handler never encrypts empty bodies; recorded in DESIGN). One genuine defect is a known finding (strict mode skips methods other than DELETE/GET/POST/PUT).',
         'SSA symbolic execution + SMT (z3) with ideal-cryptography stubs; symbolic payload bytes and timestamps'),
}

NA = {
 'C17': 'three third-party parsers plus a reflection-driven decoder over generated types: not executable by a path-forking SSA encoder, no bound leaves a non-vacuous claim (DESIGN §5)',
 'C20': 'quantifier ranges over whole .api programs through lexer/parser/AST/printer twice; symbolic bytes cannot reach a valid program and goctl does not resolve offline (DESIGN §5)',
}
PENDING = 'check not built yet in this session (planned, see DESIGN §4); not claimed until its harness runs clean'

def main():
    ids = [json.loads(l)['id'] for l in open('/verif/properties.jsonl')]
    checks, na = [], []
    for i in ids:
        if i in CLAIMED:
            ref, text, note, tech = CLAIMED[i]
            checks.append({
                'property_id': i,
                'quick_cmd': f'./check {i} quick',
                'thorough_cmd': f'./check {i} thorough',
                'evidence_file': f'/verif/evidence/{i}.json',
                'replay_cmd_template': '/verif/bin/gosym replay {path}',
                'engine': 'gosym',
                'level_claimed': {'category': 'model_checking', 'text': text, 'design_ref': ref},
                'level_note': note,
                'technique': tech,
            })
        else:
            na.append({'property_id': i, 'reason': NA.get(i, PENDING)})
    m = {
        'version': 1,
        'setup_cmd': 'cd /verif/engine && GOFLAGS=-mod=mod GOPROXY=off GOSUMDB=off GOTOOLCHAIN=local CGO_ENABLED=0 go build -o ../bin/gosym .',
        'hooks': {
            'guard': 'verif',
            'enable': 'none needed: harnesses and the verifrt runtime are injected by go/packages overlays (virtual files /repo/<pkg>/zz_verif_*.go and /repo/internal/verifrt), /repo is never written',
            'baseline_off_cmd': BASE,
            'source_commits': [],
            'add_only': True,
        },
        'engines': [{
            'name': 'gosym', 'path': '/verif/engine',
            'serves_properties': sorted(CLAIMED),
            'kind_free_text': 'symbolic interpreter for go/ssa (forked from x/tools ssa/interp) emitting SMT-LIB2 to z3; inputs, time, faults and schedules are decision/solver variables; encoding regenerated from /repo on every run',
        }],
        'checks': checks,
        'not_applicable': na,
        'notes': 'exit 0 = held within stated bounds; exit 1 + VIOLATION line = counterexample (concretely re-executed); exit 2 = inconclusive (unknown/timeout/unsupported/vacuous), never counted as success. Fixes to /repo: see known_findings.txt.',
    }
    json.dump(m, open('/verif/MANIFEST.json', 'w'), indent=1)
    open('/verif/MANIFEST.json', 'a').write('\n')

main()
