package main

// A Lua 5.1 subset evaluator over the engine's symbolic values (DESIGN 2.7). It executes the script
// text found in the running tree (go:embed files are read from /repo on every run): locals,
// assignment, if/elseif/else, return, arithmetic, comparisons, and/or/not, "..", tonumber, tostring,
// math.floor/ceil/max/min/abs, redis.call/pcall, KEYS[i], ARGV[i]. Numbers are mathematical
// integers (Int) or reals (Real); the stated assumption is |values| < 2^53 so that double arithmetic
// on integers is exact. Anything outside the subset aborts the run as unsupported.

import (
	"fmt"
	"math/big"
	"strconv"
	"strings"
)

type luaKind int

const (
	lNil luaKind = iota
	lBool
	lNum
	lStr
	lStatus // redis status reply ({ok=...})
	lTable  // KEYS / ARGV
	lFunc
)

type luaVal struct {
	k   luaKind
	b   value   // bool | symBool
	n   *Term   // lNum: SInt or SReal term; lStr with s == nil: the decimal text of this number
	s   value   // lStr/lStatus: string | symStr
	arr []luaVal
	fn  string
}

var luaNilV = luaVal{k: lNil}

func luaB(b value) luaVal { return luaVal{k: lBool, b: b} }

type luaError struct{ msg string }

// ---------- lexer

type luaTok struct {
	kind string // "name", "num", "str", "op", "eof"
	text string
}

func luaLex(src string) []luaTok {
	var out []luaTok
	i := 0
	for i < len(src) {
		c := src[i]
		switch {
		case c == ' ' || c == '\t' || c == '\n' || c == '\r':
			i++
		case c == '-' && i+1 < len(src) && src[i+1] == '-':
			if strings.HasPrefix(src[i:], "--[[") {
				j := strings.Index(src[i:], "]]")
				if j < 0 {
					panic(unsupported{"lua: unterminated long comment"})
				}
				i += j + 2
			} else {
				for i < len(src) && src[i] != '\n' {
					i++
				}
			}
		case c >= '0' && c <= '9' || (c == '.' && i+1 < len(src) && src[i+1] >= '0' && src[i+1] <= '9'):
			j := i
			for j < len(src) && (src[j] >= '0' && src[j] <= '9' || src[j] == '.' || src[j] == 'e' || src[j] == 'E' || src[j] == 'x' || (src[j] >= 'a' && src[j] <= 'f') || (src[j] >= 'A' && src[j] <= 'F')) {
				j++
			}
			out = append(out, luaTok{"num", src[i:j]})
			i = j
		case c == '_' || c >= 'a' && c <= 'z' || c >= 'A' && c <= 'Z':
			j := i
			for j < len(src) && (src[j] == '_' || src[j] >= 'a' && src[j] <= 'z' || src[j] >= 'A' && src[j] <= 'Z' || src[j] >= '0' && src[j] <= '9') {
				j++
			}
			out = append(out, luaTok{"name", src[i:j]})
			i = j
		case c == '"' || c == '\'':
			j := i + 1
			var sb strings.Builder
			for j < len(src) && src[j] != c {
				if src[j] == '\\' && j+1 < len(src) {
					j++
					switch src[j] {
					case 'n':
						sb.WriteByte('\n')
					case 't':
						sb.WriteByte('\t')
					default:
						sb.WriteByte(src[j])
					}
				} else {
					sb.WriteByte(src[j])
				}
				j++
			}
			if j >= len(src) {
				panic(unsupported{"lua: unterminated string"})
			}
			out = append(out, luaTok{"str", sb.String()})
			i = j + 1
		default:
			for _, op := range []string{"...", "..", "==", "~=", "<=", ">=", "+", "-", "*", "/", "%", "^", "#", "<", ">", "=", "(", ")", "{", "}", "[", "]", ";", ":", ",", "."} {
				if strings.HasPrefix(src[i:], op) {
					out = append(out, luaTok{"op", op})
					i += len(op)
					goto next
				}
			}
			panic(unsupported{fmt.Sprintf("lua: unexpected character %q", c)})
		next:
		}
	}
	return append(out, luaTok{"eof", ""})
}

// ---------- AST

type luaExpr struct {
	op   string // "nil","true","false","num","str","name","index","call","bin","un","paren"
	text string
	a, b *luaExpr
	args []*luaExpr
}

type luaStmt struct {
	kind  string // "local","assign","if","return","call","do"
	names []string
	exprs []*luaExpr
	conds []*luaExpr   // if / elseif conditions
	blks  [][]*luaStmt // bodies (one more than conds when there is an else)
}

type luaParser struct {
	toks []luaTok
	p    int
}

func (p *luaParser) peek() luaTok { return p.toks[p.p] }
func (p *luaParser) next() luaTok  { t := p.toks[p.p]; p.p++; return t }
func (p *luaParser) isOp(s string) bool {
	t := p.peek()
	return t.kind == "op" && t.text == s
}
func (p *luaParser) isKw(s string) bool {
	t := p.peek()
	return t.kind == "name" && t.text == s
}
func (p *luaParser) expectOp(s string) {
	if !p.isOp(s) {
		panic(unsupported{"lua: expected " + s + " near " + p.peek().text})
	}
	p.p++
}
func (p *luaParser) expectKw(s string) {
	if !p.isKw(s) {
		panic(unsupported{"lua: expected " + s + " near " + p.peek().text})
	}
	p.p++
}

func (p *luaParser) block() []*luaStmt {
	var out []*luaStmt
	for {
		t := p.peek()
		if t.kind == "eof" || p.isKw("end") || p.isKw("else") || p.isKw("elseif") || p.isKw("until") {
			return out
		}
		if p.isOp(";") {
			p.p++
			continue
		}
		st := p.stmt()
		out = append(out, st)
		if st.kind == "return" {
			for p.isOp(";") {
				p.p++
			}
			return out
		}
	}
}

func (p *luaParser) stmt() *luaStmt {
	switch {
	case p.isKw("local"):
		p.p++
		if p.isKw("function") {
			panic(unsupported{"lua: local function"})
		}
		st := &luaStmt{kind: "local"}
		for {
			t := p.next()
			if t.kind != "name" {
				panic(unsupported{"lua: name expected after local"})
			}
			st.names = append(st.names, t.text)
			if !p.isOp(",") {
				break
			}
			p.p++
		}
		if p.isOp("=") {
			p.p++
			st.exprs = p.exprList()
		}
		return st
	case p.isKw("if"):
		p.p++
		st := &luaStmt{kind: "if"}
		st.conds = append(st.conds, p.expr(0))
		p.expectKw("then")
		st.blks = append(st.blks, p.block())
		for {
			if p.isKw("elseif") {
				p.p++
				st.conds = append(st.conds, p.expr(0))
				p.expectKw("then")
				st.blks = append(st.blks, p.block())
				continue
			}
			if p.isKw("else") {
				p.p++
				st.blks = append(st.blks, p.block())
			}
			p.expectKw("end")
			return st
		}
	case p.isKw("return"):
		p.p++
		st := &luaStmt{kind: "return"}
		t := p.peek()
		if !(t.kind == "eof" || p.isKw("end") || p.isKw("else") || p.isKw("elseif") || p.isOp(";")) {
			st.exprs = p.exprList()
		}
		return st
	case p.isKw("do"):
		p.p++
		st := &luaStmt{kind: "do", blks: [][]*luaStmt{p.block()}}
		p.expectKw("end")
		return st
	case p.isKw("for") || p.isKw("while") || p.isKw("repeat") || p.isKw("function") || p.isKw("break") || p.isKw("goto"):
		panic(unsupported{"lua: statement '" + p.peek().text + "' is outside the supported subset"})
	}
	e := p.suffixed()
	if p.isOp("=") || p.isOp(",") {
		if e.op != "name" {
			panic(unsupported{"lua: assignment to a non-variable"})
		}
		st := &luaStmt{kind: "assign", names: []string{e.text}}
		for p.isOp(",") {
			p.p++
			t := p.next()
			if t.kind != "name" {
				panic(unsupported{"lua: assignment to a non-variable"})
			}
			st.names = append(st.names, t.text)
		}
		p.expectOp("=")
		st.exprs = p.exprList()
		return st
	}
	if e.op != "call" {
		panic(unsupported{"lua: expression statement that is not a call"})
	}
	return &luaStmt{kind: "call", exprs: []*luaExpr{e}}
}

func (p *luaParser) exprList() []*luaExpr {
	out := []*luaExpr{p.expr(0)}
	for p.isOp(",") {
		p.p++
		out = append(out, p.expr(0))
	}
	return out
}

var luaBinPrec = map[string][2]int{
	"or": {1, 1}, "and": {2, 2},
	"<": {3, 3}, ">": {3, 3}, "<=": {3, 3}, ">=": {3, 3}, "~=": {3, 3}, "==": {3, 3},
	"..": {5, 4}, "+": {6, 6}, "-": {6, 6}, "*": {7, 7}, "/": {7, 7}, "%": {7, 7}, "^": {10, 9},
}

const luaUnaryPrec = 8

func (p *luaParser) binOp() (string, bool) {
	t := p.peek()
	if t.kind == "op" || (t.kind == "name" && (t.text == "and" || t.text == "or")) {
		if _, ok := luaBinPrec[t.text]; ok {
			return t.text, true
		}
	}
	return "", false
}

func (p *luaParser) expr(limit int) *luaExpr {
	var left *luaExpr
	if p.isKw("not") || p.isOp("-") || p.isOp("#") {
		op := p.next().text
		left = &luaExpr{op: "un", text: op, a: p.expr(luaUnaryPrec)}
	} else {
		left = p.simple()
	}
	for {
		op, ok := p.binOp()
		if !ok || luaBinPrec[op][0] <= limit {
			return left
		}
		p.p++
		right := p.expr(luaBinPrec[op][1])
		left = &luaExpr{op: "bin", text: op, a: left, b: right}
	}
}

func (p *luaParser) simple() *luaExpr {
	t := p.peek()
	switch {
	case t.kind == "num":
		p.p++
		return &luaExpr{op: "num", text: t.text}
	case t.kind == "str":
		p.p++
		return &luaExpr{op: "str", text: t.text}
	case p.isKw("nil"), p.isKw("true"), p.isKw("false"):
		p.p++
		return &luaExpr{op: t.text}
	case p.isOp("{"):
		panic(unsupported{"lua: table constructors are outside the supported subset"})
	case p.isKw("function"):
		panic(unsupported{"lua: function expressions are outside the supported subset"})
	}
	return p.suffixed()
}

func (p *luaParser) suffixed() *luaExpr {
	var e *luaExpr
	t := p.next()
	switch {
	case t.kind == "name":
		switch t.text {
		case "and", "or", "not", "then", "end", "else", "elseif", "if", "local", "return", "do":
			panic(unsupported{"lua: unexpected keyword " + t.text})
		}
		e = &luaExpr{op: "name", text: t.text}
	case t.kind == "op" && t.text == "(":
		e = &luaExpr{op: "paren", a: p.expr(0)}
		p.expectOp(")")
	default:
		panic(unsupported{"lua: unexpected token " + t.text})
	}
	for {
		switch {
		case p.isOp("."):
			p.p++
			n := p.next()
			if n.kind != "name" {
				panic(unsupported{"lua: name expected after '.'"})
			}
			e = &luaExpr{op: "index", a: e, b: &luaExpr{op: "str", text: n.text}}
		case p.isOp("["):
			p.p++
			idx := p.expr(0)
			p.expectOp("]")
			e = &luaExpr{op: "index", a: e, b: idx}
		case p.isOp("("):
			p.p++
			c := &luaExpr{op: "call", a: e}
			if !p.isOp(")") {
				c.args = p.exprList()
			}
			p.expectOp(")")
			e = c
		case p.peek().kind == "str":
			s := p.next()
			e = &luaExpr{op: "call", a: e, args: []*luaExpr{{op: "str", text: s.text}}}
		default:
			return e
		}
	}
}

var luaCache = map[string][]*luaStmt{}

func luaParse(src string) []*luaStmt {
	p := &luaParser{toks: luaLex(src)}
	b := p.block()
	if p.peek().kind != "eof" {
		panic(unsupported{"lua: unexpected token " + p.peek().text})
	}
	return b
}

// ---------- evaluation

type luaState struct {
	r      *Run
	rm     *redisModel
	scopes []map[string]*luaVal
	ret    *luaVal
}

type luaReturn struct{}

func (l *luaState) lookup(name string) *luaVal {
	for i := len(l.scopes) - 1; i >= 0; i-- {
		if v, ok := l.scopes[i][name]; ok {
			return v
		}
	}
	return nil
}

func (l *luaState) execBlock(b []*luaStmt) bool {
	l.scopes = append(l.scopes, map[string]*luaVal{})
	defer func() { l.scopes = l.scopes[:len(l.scopes)-1] }()
	for _, st := range b {
		if l.exec(st) {
			return true
		}
	}
	return false
}

func (l *luaState) exec(st *luaStmt) bool {
	switch st.kind {
	case "local":
		vals := l.evalList(st.exprs, len(st.names))
		for i, n := range st.names {
			v := vals[i]
			l.scopes[len(l.scopes)-1][n] = &v
		}
	case "assign":
		vals := l.evalList(st.exprs, len(st.names))
		for i, n := range st.names {
			if p := l.lookup(n); p != nil {
				*p = vals[i]
			} else {
				v := vals[i]
				l.scopes[0][n] = &v // global
			}
		}
	case "call":
		l.eval(st.exprs[0])
	case "do":
		return l.execBlock(st.blks[0])
	case "if":
		for i, c := range st.conds {
			if l.truthy(l.eval(c)) {
				return l.execBlock(st.blks[i])
			}
		}
		if len(st.blks) > len(st.conds) {
			return l.execBlock(st.blks[len(st.conds)])
		}
	case "return":
		v := luaNilV
		if len(st.exprs) > 0 {
			v = l.eval(st.exprs[0])
		}
		l.ret = &v
		return true
	}
	return false
}

func (l *luaState) evalList(es []*luaExpr, n int) []luaVal {
	out := make([]luaVal, 0, n)
	for _, e := range es {
		out = append(out, l.eval(e))
	}
	for len(out) < n {
		out = append(out, luaNilV)
	}
	return out
}

// truthy: nil and false are false; a symbolic boolean forks the path.
func (l *luaState) truthy(v luaVal) bool {
	switch v.k {
	case lNil:
		return false
	case lBool:
		return l.r.truth(v.b)
	}
	return true
}

func (l *luaState) num(t *Term) luaVal { return luaVal{k: lNum, n: t} }

func (l *luaState) toNumber(v luaVal) (luaVal, bool) {
	tc := l.r.tc
	switch v.k {
	case lNum:
		return v, true
	case lStr:
		if v.s == nil {
			return l.num(v.n), true
		}
		switch s := v.s.(type) {
		case string:
			s = strings.TrimSpace(s)
			if i, ok := new(big.Int).SetString(s, 10); ok {
				return l.num(tc.Int(i)), true
			}
			if f, err := strconv.ParseFloat(s, 64); err == nil {
				q := new(big.Rat)
				if q.SetFloat64(f) != nil {
					return l.num(tc.Real(q)), true
				}
			}
			return luaNilV, false
		case symStr:
			if s.t.op == "raw" && s.t.extra == "(itoa $0)" {
				return l.num(s.t.args[0]), true
			}
			panic(unsupported{"lua: tonumber of an atom string that is not a formatted integer"})
		}
	}
	return luaNilV, false
}

func (l *luaState) arithOperand(v luaVal) *Term {
	n, ok := l.toNumber(v)
	if !ok {
		panic(luaError{"attempt to perform arithmetic on a non-number value"})
	}
	return n.n
}

func (l *luaState) asReal(t *Term) *Term {
	if t.sort == SReal {
		return t
	}
	return l.r.tc.ToReal(t)
}

func (l *luaState) arith(op string, a, b *Term) luaVal {
	tc := l.r.tc
	if a.sort == SInt && b.sort == SInt && op != "/" {
		switch op {
		case "+":
			return l.num(tc.Add(a, b))
		case "-":
			return l.num(tc.Sub(a, b))
		case "*":
			return l.num(tc.Mul(a, b))
		case "%":
			// a - floor(a/b)*b
			if !b.isCon || b.ival.Sign() <= 0 {
				panic(unsupported{"lua: % with a non-constant or non-positive divisor"})
			}
			return l.num(tc.EMod(a, b.ival))
		}
	}
	ra, rb := l.asReal(a), l.asReal(b)
	switch op {
	case "+", "-", "*":
		if op == "*" && !ra.isCon && !rb.isCon {
			panic(unsupported{"lua: product of two symbolic non-integers"})
		}
		return l.num(tc.RBin(op, ra, rb))
	case "/":
		if !rb.isCon {
			nz := tc.Not(tc.Eq(rb, tc.Real(big.NewRat(0, 1))))
			if !l.r.mustHold(nz) {
				panic(unsupported{"lua: division by a possibly-zero divisor (inf/nan are outside the model)"})
			}
			if rb.op == "to_real" && ra.op == "to_real" || true {
				// exact quotient through a fresh real q with q*b = a is non-linear; use the anchored rdiv
				return l.num(tc.RBin("/", ra, rb))
			}
		}
		if rb.rval.Sign() == 0 {
			panic(unsupported{"lua: division by zero (inf/nan are outside the model)"})
		}
		return l.num(tc.RBin("/", ra, rb))
	}
	panic(unsupported{"lua: arithmetic operator " + op})
}

func (l *luaState) cmpNum(op string, a, b *Term) value {
	tc := l.r.tc
	if a.sort != b.sort {
		a, b = l.asReal(a), l.asReal(b)
	}
	var t *Term
	switch op {
	case "<":
		t = tc.Lt(a, b)
	case "<=":
		t = tc.Le(a, b)
	case ">":
		t = tc.Lt(b, a)
	case ">=":
		t = tc.Le(b, a)
	case "==":
		t = tc.Eq(a, b)
	}
	return l.r.mkSymBool(t)
}

func (l *luaState) strValue(v luaVal) value {
	if v.s != nil {
		return v.s
	}
	// decimal text of a number
	if v.n.isCon {
		if v.n.sort == SInt {
			return v.n.ival.String()
		}
		if v.n.rval.IsInt() {
			return v.n.rval.Num().String()
		}
		f, _ := v.n.rval.Float64()
		return strconv.FormatFloat(f, 'g', 14, 64)
	}
	if v.n.sort == SInt {
		return l.r.ufStr("itoa", v.n)
	}
	panic(unsupported{"lua: text of a symbolic non-integer number"})
}

func (l *luaState) equal(a, b luaVal) value {
	r := l.r
	if a.k == lStatus {
		a = luaVal{k: lTable}
	}
	if b.k == lStatus {
		b = luaVal{k: lTable}
	}
	if a.k != b.k {
		return false
	}
	switch a.k {
	case lNil:
		return true
	case lBool:
		return r.eqv(nil, a.b, b.b)
	case lNum:
		return l.cmpNum("==", a.n, b.n)
	case lStr:
		if a.s == nil && b.s == nil {
			return l.cmpNum("==", a.n, b.n)
		}
		if a.s == nil || b.s == nil {
			// number text vs string: equal iff the string is the canonical text of the same number
			x, y := a, b
			if x.s != nil {
				x, y = y, x
			}
			if n, ok := l.toNumber(y); ok && x.n.sort == SInt && n.n.sort == SInt {
				if ys, isC := y.s.(string); isC && ys != n.n.ival.String() {
					return false
				}
				return l.cmpNum("==", x.n, n.n)
			}
			if _, isC := y.s.(string); isC {
				return false
			}
			panic(unsupported{"lua: comparing a number text with an atom string"})
		}
		return r.eqv(nil, a.s, b.s)
	}
	return false // tables/functions: reference equality of distinct objects
}

func (l *luaState) eval(e *luaExpr) luaVal {
	r := l.r
	tc := r.tc
	switch e.op {
	case "nil":
		return luaNilV
	case "true":
		return luaB(true)
	case "false":
		return luaB(false)
	case "num":
		if i, ok := new(big.Int).SetString(e.text, 0); ok {
			return l.num(tc.Int(i))
		}
		f, err := strconv.ParseFloat(e.text, 64)
		if err != nil {
			panic(unsupported{"lua: malformed number " + e.text})
		}
		q := new(big.Rat)
		q.SetFloat64(f)
		if q.IsInt() {
			return l.num(tc.Int(q.Num()))
		}
		return l.num(tc.Real(q))
	case "str":
		return luaVal{k: lStr, s: e.text}
	case "paren":
		return l.eval(e.a)
	case "name":
		if p := l.lookup(e.text); p != nil {
			return *p
		}
		switch e.text {
		case "tonumber", "tostring", "redis", "math", "type", "error", "string", "cjson", "unpack":
			return luaVal{k: lFunc, fn: e.text}
		}
		return luaNilV
	case "index":
		base := l.eval(e.a)
		if base.k == lFunc {
			if e.b.op != "str" {
				panic(unsupported{"lua: computed library index"})
			}
			return luaVal{k: lFunc, fn: base.fn + "." + e.b.text}
		}
		if base.k == lStatus {
			if e.b.op == "str" && e.b.text == "ok" {
				return luaVal{k: lStr, s: base.s}
			}
			return luaNilV
		}
		if base.k != lTable {
			panic(luaError{"attempt to index a non-table value"})
		}
		idx := l.eval(e.b)
		n, ok := l.toNumber(idx)
		if !ok || idx.k != lNum {
			return luaNilV
		}
		var i int64
		if n.n.sort == SInt {
			i = r.concretize(n.n).Int64()
		} else if n.n.isCon && n.n.rval.IsInt() {
			i = n.n.rval.Num().Int64()
		} else {
			panic(unsupported{"lua: non-integer table index"})
		}
		if i < 1 || int(i) > len(base.arr) {
			return luaNilV
		}
		return base.arr[i-1]
	case "un":
		v := l.eval(e.a)
		switch e.text {
		case "not":
			switch v.k {
			case lNil:
				return luaB(true)
			case lBool:
				return luaB(r.notv(v.b))
			}
			return luaB(false)
		case "-":
			t := l.arithOperand(v)
			if t.sort == SInt {
				return l.num(tc.Neg(t))
			}
			return l.num(tc.RBin("-", tc.Real(big.NewRat(0, 1)), t))
		case "#":
			if v.k == lTable {
				return l.num(tc.Int64(int64(len(v.arr))))
			}
			panic(unsupported{"lua: length of a non-table value"})
		}
	case "bin":
		switch e.text {
		case "and":
			a := l.eval(e.a)
			if !l.truthy(a) {
				return a
			}
			return l.eval(e.b)
		case "or":
			a := l.eval(e.a)
			if l.truthy(a) {
				return a
			}
			return l.eval(e.b)
		}
		a, b := l.eval(e.a), l.eval(e.b)
		switch e.text {
		case "==":
			return luaB(l.equal(a, b))
		case "~=":
			return luaB(r.notv(l.equal(a, b)))
		case "<", "<=", ">", ">=":
			if a.k == lNum && b.k == lNum {
				return luaB(l.cmpNum(e.text, a.n, b.n))
			}
			if a.k == lStr && b.k == lStr {
				panic(unsupported{"lua: ordering comparison of strings"})
			}
			panic(luaError{"attempt to compare " + luaTypeName(a) + " with " + luaTypeName(b)})
		case "+", "-", "*", "/", "%":
			return l.arith(e.text, l.arithOperand(a), l.arithOperand(b))
		case "..":
			if (a.k != lStr && a.k != lNum) || (b.k != lStr && b.k != lNum) {
				panic(luaError{"attempt to concatenate a " + luaTypeName(a) + " value"})
			}
			return luaVal{k: lStr, s: r.concatStr(l.strValue(a), l.strValue(b))}
		}
		panic(unsupported{"lua: operator " + e.text})
	case "call":
		f := l.eval(e.a)
		if f.k != lFunc {
			panic(luaError{"attempt to call a " + luaTypeName(f) + " value"})
		}
		var args []luaVal
		for _, a := range e.args {
			args = append(args, l.eval(a))
		}
		return l.callLib(f.fn, args)
	}
	panic(unsupported{"lua: expression " + e.op})
}

func luaTypeName(v luaVal) string {
	switch v.k {
	case lNil:
		return "nil"
	case lBool:
		return "boolean"
	case lNum:
		return "number"
	case lStr:
		return "string"
	case lFunc:
		return "function"
	}
	return "table"
}

func (l *luaState) callLib(fn string, args []luaVal) luaVal {
	r := l.r
	tc := r.tc
	arg := func(i int) luaVal {
		if i < len(args) {
			return args[i]
		}
		return luaNilV
	}
	switch fn {
	case "tonumber":
		if len(args) == 0 {
			panic(luaError{"bad argument #1 to 'tonumber' (value expected)"})
		}
		v, _ := l.toNumber(arg(0))
		return v
	case "tostring":
		v := arg(0)
		switch v.k {
		case lStr:
			return v
		case lNum:
			return luaVal{k: lStr, n: v.n}
		case lNil:
			return luaVal{k: lStr, s: "nil"}
		case lBool:
			if b, ok := v.b.(bool); ok {
				return luaVal{k: lStr, s: fmt.Sprint(b)}
			}
		}
		panic(unsupported{"lua: tostring of this value"})
	case "type":
		return luaVal{k: lStr, s: luaTypeName(arg(0))}
	case "error":
		panic(luaError{"error() called by the script"})
	case "math.floor", "math.ceil":
		t := l.arithOperand(arg(0))
		if t.sort == SInt {
			return l.num(t)
		}
		if fn == "math.floor" {
			return l.num(tc.Floor(t))
		}
		return l.num(tc.Neg(tc.Floor(tc.RBin("-", tc.Real(big.NewRat(0, 1)), t))))
	case "math.abs":
		t := l.arithOperand(arg(0))
		if t.sort == SInt {
			return l.num(tc.Ite(tc.Le(tc.Int64(0), t), t, tc.Neg(t)))
		}
		z := tc.Real(big.NewRat(0, 1))
		return l.num(tc.Ite(tc.Le(z, t), t, tc.RBin("-", z, t)))
	case "math.max", "math.min":
		if len(args) == 0 {
			panic(luaError{"bad argument #1 to '" + fn + "' (number expected, got no value)"})
		}
		acc := l.arithOperand(args[0])
		for _, a := range args[1:] {
			t := l.arithOperand(a)
			if acc.sort != t.sort {
				acc, t = l.asReal(acc), l.asReal(t)
			}
			if fn == "math.max" {
				acc = tc.Ite(tc.Le(t, acc), acc, t)
			} else {
				acc = tc.Ite(tc.Le(acc, t), acc, t)
			}
		}
		return l.num(acc)
	case "redis.call", "redis.pcall":
		if len(args) == 0 {
			panic(luaError{"Please specify at least one argument for redis.call()"})
		}
		return l.rm.command(l, args)
	case "redis.status_reply":
		return luaVal{k: lStatus, s: l.strValue(arg(0))}
	case "redis.error_reply":
		panic(luaError{"script returned an error reply"})
	}
	panic(unsupported{"lua: library function " + fn + " is outside the supported subset"})
}
