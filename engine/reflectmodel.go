package main

// Engine-native model of the part of package reflect that core/mapping's unmarshaller uses
// (DESIGN 10.2). A reflect.Type is the interface value iface{*reflect.rtype, rtype{T}} over the
// go/types type T; a reflect.Value is the host value reflValue: static type + either the address
// of its storage inside the interpreter's heap (addressable, e.g. a struct field reached through a
// pointer) or the value itself. Scalars inside may be symbolic. Every reflect function that has no
// model here aborts the run as unsupported (its real body would misread these representations).

import (
	"fmt"
	"go/types"
	"reflect"
	"strings"

	"golang.org/x/tools/go/ssa"
)

type reflValue struct {
	t        types.Type // nil: the zero (invalid) Value
	ptr      *value     // storage, when addressable
	v        value      // the value, when not addressable
	settable bool
}

func (x reflValue) get() value {
	if x.ptr != nil {
		return load(x.t, x.ptr)
	}
	return x.v
}

func asRefl(v value) reflValue {
	switch x := v.(type) {
	case reflValue:
		return x
	case structure: // the zero reflect.Value made by the interpreter
		return reflValue{}
	}
	panic(unsupported{fmt.Sprintf("reflect model: unexpected Value representation %T", v)})
}

func (r *Run) rtypePtr() types.Type {
	pkg := r.interp.prog.ImportedPackage("reflect")
	if pkg == nil {
		panic(unsupported{"package reflect not loaded"})
	}
	return types.NewPointer(pkg.Type("rtype").Type())
}

func (r *Run) mkType(t types.Type) value {
	if t == nil {
		return iface{}
	}
	return iface{t: r.rtypePtr(), v: rtype{t}}
}

func typeOfArg(v value) types.Type {
	switch x := v.(type) {
	case iface:
		if x.t == nil {
			panic(targetPanic{v: iface{t: types.Typ[types.String], v: "reflect: nil Type"}})
		}
		return x.v.(rtype).t
	case rtype:
		return x.t
	}
	panic(unsupported{fmt.Sprintf("reflect model: unexpected Type representation %T", v)})
}

func reflPanic(msg string) targetPanic {
	return targetPanic{v: iface{t: types.Typ[types.String], v: "reflect: " + msg}}
}

func (r *Run) reflIsNil(x reflValue) bool {
	switch v := x.get().(type) {
	case *value:
		return v == nil
	case []value:
		return v == nil
	case *gmap:
		return v == nil
	case *channel:
		return v == nil
	case iface:
		return v.t == nil
	case *ssa.Function:
		return v == nil
	case *closure:
		return v == nil
	}
	panic(reflPanic("call of reflect.Value.IsNil on " + x.t.String() + " Value"))
}

func (r *Run) reflIsZero(t types.Type, v value) value {
	return r.eqv(t, v, zero(t))
}

func structFieldValue(r *Run, st *types.Struct, named types.Type, i int) value {
	f := st.Field(i)
	pkgPath := ""
	if !f.Exported() && f.Pkg() != nil {
		pkgPath = f.Pkg().Path()
	}
	// reflect.StructField{Name, PkgPath string; Type Type; Tag StructTag; Offset uintptr; Index []int; Anonymous bool}
	return structure{f.Name(), pkgPath, r.mkType(f.Type()), st.Tag(i), uintptr(i), []value{i}, f.Embedded()}
}

// basicOf returns the basic kind of t's underlying type (or Invalid).
func basicOf(t types.Type) types.BasicKind {
	if b, ok := t.Underlying().(*types.Basic); ok {
		return b.Kind()
	}
	return types.Invalid
}

func isIntKind(k types.BasicKind) bool {
	switch k {
	case types.Int, types.Int8, types.Int16, types.Int32, types.Int64:
		return true
	}
	return false
}

func isUintKind(k types.BasicKind) bool {
	switch k {
	case types.Uint, types.Uint8, types.Uint16, types.Uint32, types.Uint64, types.Uintptr:
		return true
	}
	return false
}

func isFloatKind(k types.BasicKind) bool { return k == types.Float32 || k == types.Float64 }

func (r *Run) reflSet(x reflValue, v value) {
	if !x.settable || x.ptr == nil {
		panic(reflPanic("reflect.Value.Set using unaddressable value"))
	}
	store(x.t, x.ptr, v)
}

// reflect functions that are plain Go over strings/ints and safe to run from their bodies
var reflectFromSource = map[string]bool{
	"(reflect.StructTag).Get":          true,
	"(reflect.StructTag).Lookup":       true,
	"(reflect.Kind).String":            true,
	"(reflect.StructField).IsExported": true,
	"reflect.init":                     true,
}

func isReflectFunc(fn *ssa.Function) bool { return pkgPathOf(fn) == "reflect" }

func init() {
	// ---------- package-level functions
	reg("reflect.TypeOf", func(fr *frame, a []value) value {
		return fr.i.run.mkType(a[0].(iface).t)
	})
	stubTable["reflect.ValueOf"] = func(fr *frame, a []value) value {
		x := a[0].(iface)
		if x.t == nil {
			return reflValue{}
		}
		return reflValue{t: x.t, v: x.v}
	}
	reg("reflect.New", func(fr *frame, a []value) value {
		t := typeOfArg(a[0])
		cell := new(value)
		*cell = zero(t)
		return reflValue{t: types.NewPointer(t), v: cell}
	})
	reg("reflect.Zero", func(fr *frame, a []value) value {
		t := typeOfArg(a[0])
		return reflValue{t: t, v: zero(t)}
	})
	reg("reflect.Indirect", func(fr *frame, a []value) value {
		x := asRefl(a[0])
		if _, ok := x.t.Underlying().(*types.Pointer); !ok {
			return x
		}
		return reflElem(fr.i.run, x)
	})
	reg("reflect.SliceOf", func(fr *frame, a []value) value {
		return fr.i.run.mkType(types.NewSlice(typeOfArg(a[0])))
	})
	reg("reflect.MapOf", func(fr *frame, a []value) value {
		return fr.i.run.mkType(types.NewMap(typeOfArg(a[0]), typeOfArg(a[1])))
	})
	reg("reflect.PointerTo", func(fr *frame, a []value) value {
		return fr.i.run.mkType(types.NewPointer(typeOfArg(a[0])))
	})
	reg("reflect.PtrTo", func(fr *frame, a []value) value {
		return fr.i.run.mkType(types.NewPointer(typeOfArg(a[0])))
	})
	reg("reflect.MakeSlice", func(fr *frame, a []value) value {
		r := fr.i.run
		t := typeOfArg(a[0])
		st, ok := t.Underlying().(*types.Slice)
		if !ok {
			panic(reflPanic("reflect.MakeSlice of non-slice type"))
		}
		l, c := int(r.concreteInt(a[1])), int(r.concreteInt(a[2]))
		if l < 0 || c < l || c > 1<<20 {
			panic(reflPanic("reflect.MakeSlice: len/cap out of range"))
		}
		s := make([]value, c)
		for i := range s {
			s[i] = zero(st.Elem())
		}
		return reflValue{t: t, v: s[:l]}
	})
	mkMap := func(fr *frame, a []value) value {
		t := typeOfArg(a[0])
		mt, ok := t.Underlying().(*types.Map)
		if !ok {
			panic(reflPanic("reflect.MakeMap of non-map type"))
		}
		return reflValue{t: t, v: makeMap(mt.Key())}
	}
	reg("reflect.MakeMap", mkMap)
	reg("reflect.MakeMapWithSize", mkMap)
	reg("reflect.Append", func(fr *frame, a []value) value {
		x := asRefl(a[0])
		s := append([]value{}, x.get().([]value)...)
		for _, e := range variadic(a[1]) {
			s = append(s, asRefl(e).get())
		}
		return reflValue{t: x.t, v: s}
	})

	// ---------- Type methods (dynamic type *reflect.rtype)
	tm := func(name string, f func(r *Run, t types.Type, a []value) value) {
		reg("(*reflect.rtype)."+name, func(fr *frame, a []value) value {
			return f(fr.i.run, typeOfArg(a[0]), a[1:])
		})
	}
	tm("Kind", func(r *Run, t types.Type, a []value) value { return reflKind(t) })
	tm("String", func(r *Run, t types.Type, a []value) value { return types.TypeString(t, func(p *types.Package) string { return p.Name() }) })
	tm("Name", func(r *Run, t types.Type, a []value) value {
		switch n := types.Unalias(t).(type) {
		case *types.Named:
			return n.Obj().Name()
		case *types.Basic:
			return n.Name()
		}
		return ""
	})
	tm("PkgPath", func(r *Run, t types.Type, a []value) value {
		if n, ok := types.Unalias(t).(*types.Named); ok && n.Obj().Pkg() != nil {
			return n.Obj().Pkg().Path()
		}
		return ""
	})
	tm("Elem", func(r *Run, t types.Type, a []value) value {
		switch u := t.Underlying().(type) {
		case *types.Pointer:
			return r.mkType(u.Elem())
		case *types.Slice:
			return r.mkType(u.Elem())
		case *types.Array:
			return r.mkType(u.Elem())
		case *types.Map:
			return r.mkType(u.Elem())
		case *types.Chan:
			return r.mkType(u.Elem())
		}
		panic(reflPanic("Elem of invalid type " + t.String()))
	})
	tm("Key", func(r *Run, t types.Type, a []value) value {
		if u, ok := t.Underlying().(*types.Map); ok {
			return r.mkType(u.Key())
		}
		panic(reflPanic("Key of non-map type " + t.String()))
	})
	tm("Len", func(r *Run, t types.Type, a []value) value {
		if u, ok := t.Underlying().(*types.Array); ok {
			return int(u.Len())
		}
		panic(reflPanic("Len of non-array type " + t.String()))
	})
	tm("NumField", func(r *Run, t types.Type, a []value) value {
		if u, ok := t.Underlying().(*types.Struct); ok {
			return u.NumFields()
		}
		panic(reflPanic("NumField of non-struct type " + t.String()))
	})
	tm("Field", func(r *Run, t types.Type, a []value) value {
		u, ok := t.Underlying().(*types.Struct)
		i := int(r.concreteInt(a[0]))
		if !ok || i < 0 || i >= u.NumFields() {
			panic(reflPanic("Field index out of bounds"))
		}
		return structFieldValue(r, u, t, i)
	})
	tm("AssignableTo", func(r *Run, t types.Type, a []value) value {
		return types.AssignableTo(t, typeOfArg(a[0]))
	})
	tm("ConvertibleTo", func(r *Run, t types.Type, a []value) value {
		return types.ConvertibleTo(t, typeOfArg(a[0]))
	})
	tm("Comparable", func(r *Run, t types.Type, a []value) value { return types.Comparable(t) })
	tm("Implements", func(r *Run, t types.Type, a []value) value {
		it, ok := typeOfArg(a[0]).Underlying().(*types.Interface)
		if !ok {
			panic(reflPanic("non-interface type passed to Type.Implements"))
		}
		return types.Implements(t, it)
	})
	tm("NumMethod", func(r *Run, t types.Type, a []value) value {
		return r.interp.prog.MethodSets.MethodSet(t).Len()
	})

	// ---------- Value methods
	vm := func(name string, f func(fr *frame, x reflValue, a []value) value) {
		reg("(reflect.Value)."+name, func(fr *frame, a []value) value {
			return f(fr, asRefl(a[0]), a[1:])
		})
	}
	need := func(x reflValue, what string) {
		if x.t == nil {
			panic(reflPanic("call of reflect.Value." + what + " on zero Value"))
		}
	}
	vm("IsValid", func(fr *frame, x reflValue, a []value) value { return x.t != nil })
	vm("Kind", func(fr *frame, x reflValue, a []value) value {
		if x.t == nil {
			return uint(0)
		}
		return reflKind(x.t)
	})
	vm("Type", func(fr *frame, x reflValue, a []value) value {
		need(x, "Type")
		return fr.i.run.mkType(x.t)
	})
	vm("CanSet", func(fr *frame, x reflValue, a []value) value { return x.settable && x.ptr != nil })
	vm("CanAddr", func(fr *frame, x reflValue, a []value) value { return x.ptr != nil })
	vm("CanInterface", func(fr *frame, x reflValue, a []value) value { need(x, "CanInterface"); return true })
	vm("CanInt", func(fr *frame, x reflValue, a []value) value { return x.t != nil && isIntKind(basicOf(x.t)) })
	vm("CanUint", func(fr *frame, x reflValue, a []value) value { return x.t != nil && isUintKind(basicOf(x.t)) })
	vm("CanFloat", func(fr *frame, x reflValue, a []value) value { return x.t != nil && isFloatKind(basicOf(x.t)) })
	vm("Addr", func(fr *frame, x reflValue, a []value) value {
		if x.ptr == nil {
			panic(reflPanic("reflect.Value.Addr of unaddressable value"))
		}
		return reflValue{t: types.NewPointer(x.t), v: x.ptr}
	})
	vm("Elem", func(fr *frame, x reflValue, a []value) value {
		need(x, "Elem")
		return reflElem(fr.i.run, x)
	})
	vm("IsNil", func(fr *frame, x reflValue, a []value) value {
		need(x, "IsNil")
		return fr.i.run.reflIsNil(x)
	})
	vm("IsZero", func(fr *frame, x reflValue, a []value) value {
		need(x, "IsZero")
		return fr.i.run.reflIsZero(x.t, x.get())
	})
	vm("Interface", func(fr *frame, x reflValue, a []value) value {
		need(x, "Interface")
		if _, ok := x.t.Underlying().(*types.Interface); ok {
			return x.get().(iface)
		}
		return iface{t: x.t, v: x.get()}
	})
	vm("NumField", func(fr *frame, x reflValue, a []value) value {
		need(x, "NumField")
		if u, ok := x.t.Underlying().(*types.Struct); ok {
			return u.NumFields()
		}
		panic(reflPanic("call of reflect.Value.NumField on " + x.t.String() + " Value"))
	})
	vm("Field", func(fr *frame, x reflValue, a []value) value {
		need(x, "Field")
		r := fr.i.run
		u, ok := x.t.Underlying().(*types.Struct)
		i := int(r.concreteInt(a[0]))
		if !ok || i < 0 || i >= u.NumFields() {
			panic(reflPanic("Field index out of range"))
		}
		f := u.Field(i)
		if x.ptr != nil {
			st := (*x.ptr).(structure)
			return reflValue{t: f.Type(), ptr: &st[i], settable: x.settable && f.Exported()}
		}
		return reflValue{t: f.Type(), v: x.v.(structure)[i]}
	})
	vm("Len", func(fr *frame, x reflValue, a []value) value {
		need(x, "Len")
		switch v := x.get().(type) {
		case []value:
			return len(v)
		case array:
			return len(v)
		case string:
			return len(v)
		case symBytesStr:
			return len(v.b)
		case *gmap:
			return v.len()
		case *channel:
			return v.length()
		}
		panic(unsupported{"reflect.Value.Len of " + x.t.String()})
	})
	vm("Cap", func(fr *frame, x reflValue, a []value) value {
		need(x, "Cap")
		switch v := x.get().(type) {
		case []value:
			return cap(v)
		case array:
			return len(v)
		}
		panic(unsupported{"reflect.Value.Cap of " + x.t.String()})
	})
	vm("Index", func(fr *frame, x reflValue, a []value) value {
		need(x, "Index")
		r := fr.i.run
		i := int(r.concreteInt(a[0]))
		switch u := x.t.Underlying().(type) {
		case *types.Slice:
			s := x.get().([]value)
			if i < 0 || i >= len(s) {
				panic(reflPanic("slice index out of range"))
			}
			return reflValue{t: u.Elem(), ptr: &s[i], settable: true}
		case *types.Array:
			if x.ptr != nil {
				arr := (*x.ptr).(array)
				if i < 0 || i >= len(arr) {
					panic(reflPanic("array index out of range"))
				}
				return reflValue{t: u.Elem(), ptr: &arr[i], settable: x.settable}
			}
			arr := x.v.(array)
			if i < 0 || i >= len(arr) {
				panic(reflPanic("array index out of range"))
			}
			return reflValue{t: u.Elem(), v: arr[i]}
		}
		panic(unsupported{"reflect.Value.Index of " + x.t.String()})
	})
	vm("Set", func(fr *frame, x reflValue, a []value) value {
		need(x, "Set")
		y := asRefl(a[0])
		if y.t == nil {
			panic(reflPanic("call of reflect.Value.Set with zero Value"))
		}
		if !types.AssignableTo(y.t, x.t) {
			panic(reflPanic("value of type " + y.t.String() + " is not assignable to type " + x.t.String()))
		}
		v := y.get()
		if _, isIface := x.t.Underlying().(*types.Interface); isIface {
			if _, already := y.t.Underlying().(*types.Interface); !already {
				v = iface{t: y.t, v: v}
			}
		}
		fr.i.run.reflSet(x, v)
		return nil
	})
	setBasic := func(name string, ok func(types.BasicKind) bool, src types.Type) {
		vm(name, func(fr *frame, x reflValue, a []value) value {
			need(x, name)
			if !ok(basicOf(x.t)) {
				panic(reflPanic("call of reflect.Value." + name + " on " + x.t.String() + " Value"))
			}
			r := fr.i.run
			r.reflSet(x, conv(r, x.t, src, a[0]))
			return nil
		})
	}
	setBasic("SetInt", isIntKind, types.Typ[types.Int64])
	setBasic("SetUint", isUintKind, types.Typ[types.Uint64])
	setBasic("SetFloat", isFloatKind, types.Typ[types.Float64])
	setBasic("SetString", func(k types.BasicKind) bool { return k == types.String }, types.Typ[types.String])
	setBasic("SetBool", func(k types.BasicKind) bool { return k == types.Bool }, types.Typ[types.Bool])
	getBasic := func(name string, ok func(types.BasicKind) bool, dst types.Type) {
		vm(name, func(fr *frame, x reflValue, a []value) value {
			need(x, name)
			if !ok(basicOf(x.t)) {
				panic(reflPanic("call of reflect.Value." + name + " on " + x.t.String() + " Value"))
			}
			r := fr.i.run
			return conv(r, dst, x.t, x.get())
		})
	}
	getBasic("Int", isIntKind, types.Typ[types.Int64])
	getBasic("Uint", isUintKind, types.Typ[types.Uint64])
	getBasic("Float", isFloatKind, types.Typ[types.Float64])
	getBasic("Bool", func(k types.BasicKind) bool { return k == types.Bool }, types.Typ[types.Bool])
	vm("String", func(fr *frame, x reflValue, a []value) value {
		if x.t == nil {
			return "<invalid Value>"
		}
		if basicOf(x.t) == types.String {
			return x.get()
		}
		return "<" + x.t.String() + " Value>"
	})
	vm("OverflowFloat", func(fr *frame, x reflValue, a []value) value {
		need(x, "OverflowFloat")
		switch basicOf(x.t) {
		case types.Float64:
			return false
		case types.Float32:
			f, ok := a[0].(float64)
			if !ok {
				panic(unsupported{"reflect.Value.OverflowFloat of a symbolic float"})
			}
			if f < 0 {
				f = -f
			}
			return 3.40282346638528859811704183484516925440e+38 < f && f <= 1.79769313486231570814527423731704356798070e+308
		}
		panic(reflPanic("call of reflect.Value.OverflowFloat on " + x.t.String() + " Value"))
	})
	vm("Convert", func(fr *frame, x reflValue, a []value) value {
		need(x, "Convert")
		r := fr.i.run
		t := typeOfArg(a[0])
		if !types.ConvertibleTo(x.t, t) {
			panic(reflPanic("value of type " + x.t.String() + " cannot be converted to type " + t.String()))
		}
		if _, isIface := t.Underlying().(*types.Interface); isIface {
			if _, already := x.t.Underlying().(*types.Interface); already {
				return reflValue{t: t, v: x.get()}
			}
			return reflValue{t: t, v: iface{t: x.t, v: x.get()}}
		}
		return reflValue{t: t, v: conv(r, t, x.t, x.get())}
	})
	vm("MapKeys", func(fr *frame, x reflValue, a []value) value {
		need(x, "MapKeys")
		mt, ok := x.t.Underlying().(*types.Map)
		if !ok {
			panic(reflPanic("call of reflect.Value.MapKeys on " + x.t.String() + " Value"))
		}
		m, _ := x.get().(*gmap)
		var out []value
		if m != nil {
			for _, e := range m.entries {
				if !e.deleted {
					out = append(out, reflValue{t: mt.Key(), v: e.key})
				}
			}
		}
		return out
	})
	vm("MapIndex", func(fr *frame, x reflValue, a []value) value {
		need(x, "MapIndex")
		mt, ok := x.t.Underlying().(*types.Map)
		if !ok {
			panic(reflPanic("call of reflect.Value.MapIndex on " + x.t.String() + " Value"))
		}
		m, _ := x.get().(*gmap)
		k := asRefl(a[0])
		if v, found := m.lookup(fr.i.run, reflKeyValue(mt.Key(), k)); found {
			return reflValue{t: mt.Elem(), v: v}
		}
		return reflValue{}
	})
	vm("SetMapIndex", func(fr *frame, x reflValue, a []value) value {
		need(x, "SetMapIndex")
		mt, ok := x.t.Underlying().(*types.Map)
		if !ok {
			panic(reflPanic("call of reflect.Value.SetMapIndex on " + x.t.String() + " Value"))
		}
		m, _ := x.get().(*gmap)
		if m == nil {
			panic(targetPanic{v: iface{t: types.Typ[types.String], v: "assignment to entry in nil map"}})
		}
		k, e := asRefl(a[0]), asRefl(a[1])
		if e.t == nil {
			m.delete(fr.i.run, reflKeyValue(mt.Key(), k))
			return nil
		}
		if !types.AssignableTo(e.t, mt.Elem()) {
			panic(reflPanic("value of type " + e.t.String() + " is not assignable to type " + mt.Elem().String()))
		}
		v := e.get()
		if _, isIface := mt.Elem().Underlying().(*types.Interface); isIface {
			if _, already := e.t.Underlying().(*types.Interface); !already {
				v = iface{t: e.t, v: v}
			}
		}
		m.insert(fr.i.run, reflKeyValue(mt.Key(), k), v)
		return nil
	})
}

func reflKeyValue(keyT types.Type, k reflValue) value {
	v := k.get()
	if _, isIface := keyT.Underlying().(*types.Interface); isIface {
		if _, already := k.t.Underlying().(*types.Interface); !already {
			return iface{t: k.t, v: v}
		}
	}
	return v
}

func reflElem(r *Run, x reflValue) value {
	switch u := x.t.Underlying().(type) {
	case *types.Pointer:
		p, _ := x.get().(*value)
		if p == nil {
			return reflValue{}
		}
		return reflValue{t: u.Elem(), ptr: p, settable: true}
	case *types.Interface:
		in := x.get().(iface)
		if in.t == nil {
			return reflValue{}
		}
		return reflValue{t: in.t, v: in.v}
	}
	panic(reflPanic("call of reflect.Value.Elem on " + x.t.String() + " Value"))
}

var _ = reflect.Invalid
var _ = strings.TrimSpace
