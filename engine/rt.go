package main

// Engine side of the harness runtime package internal/verifrt (DESIGN 3).

import (
	"fmt"
	"os"
	"strconv"
	"strings"
	"sync"
	"go/types"
	"math"
	"math/big"
)

var rtTable = map[string]stubFn{}

var (
	pinOnce sync.Once
	pins    map[string]int
)

func pinnedChoices() map[string]int {
	pinOnce.Do(func() {
		pins = map[string]int{}
		for _, kv := range strings.Split(os.Getenv("VERIF_PIN"), ",") {
			k, v, ok := strings.Cut(kv, "=")
			if n, err := strconv.Atoi(v); ok && err == nil {
				pins[k] = n
			}
		}
	})
	return pins
}

func rtStr(v value) string {
	s, ok := v.(string)
	if !ok {
		panic(fmt.Sprintf("verifrt: label must be a constant string, got %T", v))
	}
	return s
}

func init() {
	for k, f := range map[string]stubFn{
		"Int": func(fr *frame, a []value) value {
			r := fr.i.run
			lo, hi := r.concreteInt(a[1]), r.concreteInt(a[2])
			if lo > hi {
				panic(runAbort{"infeasible"})
			}
			t := r.newNondet(rtStr(a[0]), SInt, big.NewInt(lo), big.NewInt(hi))
			return r.mkSymInt(t, types.Int64)
		},
		"Int64": func(fr *frame, a []value) value {
			r := fr.i.run
			lo, hi := typeRange(64, true)
			return r.mkSymInt(r.newNondet(rtStr(a[0]), SInt, lo, hi), types.Int64)
		},
		"Uint64": func(fr *frame, a []value) value {
			r := fr.i.run
			lo, hi := typeRange(64, false)
			return r.mkSymInt(r.newNondet(rtStr(a[0]), SInt, lo, hi), types.Uint64)
		},
		"Uint32": func(fr *frame, a []value) value {
			r := fr.i.run
			lo, hi := typeRange(32, false)
			return r.mkSymInt(r.newNondet(rtStr(a[0]), SInt, lo, hi), types.Uint32)
		},
		"Byte": func(fr *frame, a []value) value {
			r := fr.i.run
			return r.mkSymInt(r.newNondet(rtStr(a[0]), SInt, big.NewInt(0), big.NewInt(255)), types.Uint8)
		},
		"Bool": func(fr *frame, a []value) value {
			r := fr.i.run
			return r.mkSymBool(r.newNondet(rtStr(a[0]), SBool, nil, nil))
		},
		"Float": func(fr *frame, a []value) value {
			r := fr.i.run
			lo, hi := a[1].(float64), a[2].(float64)
			t := r.newNondet(rtStr(a[0]), SReal, nil, nil)
			if !t.isCon {
				tc := r.tc
				r.addPC(tc.Le(tc.RealF(lo), t))
				r.addPC(tc.Le(t, tc.RealF(hi)))
				// a float64 input is itself representable: fl(x) == x
				f := tc.Fl(t)
				r.addPC(tc.Eq(f, t))
			}
			return r.mkSymFloat(t)
		},
		"FloatAny": func(fr *frame, a []value) value {
			r := fr.i.run
			name := r.nondetName(rtStr(a[0]))
			if r.concrete != nil {
				r.nondets = append(r.nondets, &NondetInfo{Name: name, Sort: "FP"})
				return parseFPModel(r.concrete[name])
			}
			t := r.tc.Var("n_"+name, SFP, nil, nil)
			r.nondets = append(r.nondets, &NondetInfo{Name: name, Sort: "FP", term: t})
			return symFP{t}
		},
		"Atom": func(fr *frame, a []value) value {
			r := fr.i.run
			if r.concrete != nil {
				// a model value "=<text>" says the atom equals that concrete string (e.g. "" or an option)
				name := r.nondetName(rtStr(a[0]))
				if v, ok := r.concrete[name]; ok && strings.HasPrefix(v, "=") {
					r.nondets = append(r.nondets, &NondetInfo{Name: name, Sort: "Atom"})
					return v[1:]
				}
				r.nondetUnname(rtStr(a[0]))
			}
			t := r.newNondet(rtStr(a[0]), SInt, big.NewInt(0), nil)
			if t.isCon {
				return fmt.Sprintf("atom%s", t.ival)
			}
			r.nondets[len(r.nondets)-1].atom = true
			return symStr{t}
		},
		"Bytes": func(fr *frame, a []value) value {
			r := fr.i.run
			n := int(r.concreteInt(a[1]))
			out := make([]value, n)
			for i := range out {
				out[i] = r.mkSymInt(r.newNondet(fmt.Sprintf("%s[%d]", rtStr(a[0]), i), SInt, big.NewInt(0), big.NewInt(255)), types.Uint8)
			}
			return out
		},
		"Choose": func(fr *frame, a []value) value {
			// an unconstrained n-way choice: enumerated by the decision vector, no solver needed
			r := fr.i.run
			n := int(r.concreteInt(a[1]))
			if n <= 0 {
				panic(runAbort{"infeasible"})
			}
			name := r.nondetName(rtStr(a[0]))
			var idx int
			if r.concrete != nil {
				if v, ok := r.concrete[name]; ok {
					fmt.Sscanf(v, "%d", &idx)
				}
				if idx < 0 || idx >= n {
					idx = 0
				}
			} else if v, ok := pinnedChoices()[name]; ok && v < n {
				idx = v // VERIF_PIN probing aid: explore one slice of the configuration space
			} else {
				idx = r.choose('k', n)
			}
			r.nondets = append(r.nondets, &NondetInfo{Name: name, Sort: "choice", Lo: "0", Hi: fmt.Sprint(n - 1), term: r.tc.Int64(int64(idx))})
			return idx
		},
		"Concrete": func(fr *frame, a []value) value {
			return fr.i.run.concreteInt(a[0])
		},
		"Assume": func(fr *frame, a []value) value {
			fr.i.run.assume(a[0])
			return nil
		},
		"Assert": func(fr *frame, a []value) value {
			pos := ""
			if fr.caller != nil {
				pos = fr.caller.pos()
			}
			fr.i.run.assert(a[0], rtStr(a[1]), pos)
			return nil
		},
		"Cover": func(fr *frame, a []value) value {
			fr.i.run.covers[rtStr(a[0])] = true
			return nil
		},
		"CoverIf": func(fr *frame, a []value) value {
			r := fr.i.run
			label := rtStr(a[1])
			if r.covers[label] || r.w.d.isCovered(r.entry.Name, label) {
				return nil
			}
			switch c := a[0].(type) {
			case bool:
				if c {
					r.covers[label] = true
				}
			case symBool:
				if r.check(c.t) == Sat {
					r.covers[label] = true
					r.w.d.markCovered(r.entry.Name, label)
				}
			}
			return nil
		},
		"SetNow": func(fr *frame, a []value) value {
			fr.i.run.now = a[0]
			return nil
		},
		"Now": func(fr *frame, a []value) value { return fr.i.run.now },
		"Advance": func(fr *frame, a []value) value {
			r := fr.i.run
			r.now = binop(r, tokenADD, nil, r.now, a[0])
			return nil
		},
		"Yield": func(fr *frame, a []value) value {
			fr.i.run.sched.yield(fr.g, &pendingOp{kind: opYield, desc: "Yield"})
			return nil
		},
		"WaitIdle": func(fr *frame, a []value) value {
			fr.i.run.sched.yield(fr.g, &pendingOp{kind: opIdle, desc: "WaitIdle"})
			return nil
		},
		"Live": func(fr *frame, a []value) value {
			n := 0
			for _, g := range fr.i.run.sched.gs {
				if !g.done && g != fr.g {
					n++
				}
			}
			return n
		},
		"Observe": func(fr *frame, a []value) value {
			r := fr.i.run
			r.obs = append(r.obs, rtStr(a[0])+"="+toString(a[1].(iface).v))
			return nil
		},
		"Tier": func(fr *frame, a []value) value { return fr.i.run.w.d.tier },
		"Note": func(fr *frame, a []value) value { return nil },
		"SymChan": func(fr *frame, a []value) value {
			// turns a channel of zero-size elements into a symbolic counter (capacity, occupancy)
			r := fr.i.run
			ch := a[0].(iface).v.(*channel)
			capT, _ := r.intTerm(a[1])
			cntT, _ := r.intTerm(a[2])
			ch.symCap, ch.symCount = capT, cntT
			return nil
		},
		"ChanLen": func(fr *frame, a []value) value {
			r := fr.i.run
			ch := a[0].(iface).v.(*channel)
			if ch.symCount != nil {
				return r.mkSymInt(ch.symCount, types.Int64)
			}
			return int64(len(ch.buf))
		},
		"And": func(fr *frame, a []value) value { return fr.i.run.andv(a[0], a[1]) },
		"Or": func(fr *frame, a []value) value {
			r := fr.i.run
			return r.notv(r.andv(r.notv(a[0]), r.notv(a[1])))
		},
		"Ite": func(fr *frame, a []value) value { return fr.i.run.itev(a[0], a[1], a[2]) },
		"IteF": func(fr *frame, a []value) value { return fr.i.run.itev(a[0], a[1], a[2]) },
		"IsSymbolic": func(fr *frame, a []value) value { return fr.i.run.concrete == nil },
	} {
		rtTable[k] = f
	}
}

func parseFPModel(s string) value {
	// z3 prints (fp #b0 #b10000000000 #x0000000000000) or (_ NaN 11 53) etc.
	var sign, exp, man uint64
	if n, _ := fmt.Sscanf(s, "(fp #b%b #b%b #x%x)", &sign, &exp, &man); n == 3 {
		return math.Float64frombits(sign<<63 | exp<<52 | man)
	}
	switch {
	case len(s) >= 6 && s[:6] == "(_ NaN":
		return math.NaN()
	case len(s) >= 7 && s[:7] == "(_ +oo ":
		return math.Inf(1)
	case len(s) >= 7 && s[:7] == "(_ -oo ":
		return math.Inf(-1)
	case len(s) >= 9 && s[:9] == "(_ +zero ":
		return 0.0
	case len(s) >= 9 && s[:9] == "(_ -zero ":
		return math.Copysign(0, -1)
	}
	return 0.0
}
