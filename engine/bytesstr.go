package main

// Strings of concrete length whose bytes may be symbolic (DESIGN 2.3 (iii)).

import (
	"fmt"
	"go/token"
	"go/types"
)

// atomChunk is the content of []byte(atom): opaque, only string(b) gives the atom back.
type atomChunk struct{ t *Term }

// normBytesStr returns a plain Go string when every byte is concrete.
func normBytesStr(b []value) value {
	out := make([]byte, len(b))
	for i, x := range b {
		c, ok := x.(byte)
		if !ok {
			cp := make([]value, len(b))
			copy(cp, b)
			return symBytesStr{cp}
		}
		out[i] = c
	}
	return string(out)
}

func bytesToString(b []value) value { return normBytesStr(b) }

func asBytesStr(v value) (symBytesStr, bool) {
	switch s := v.(type) {
	case symBytesStr:
		return s, true
	case string:
		return strToSymBytes(s), true
	}
	return symBytesStr{}, false
}

func (r *Run) bytesStrBinop(op token.Token, t types.Type, x, y value) value {
	a, ok1 := asBytesStr(x)
	b, ok2 := asBytesStr(y)
	if !ok1 || !ok2 {
		panic(unsupported{fmt.Sprintf("operator %s between %T and %T", op, x, y)})
	}
	switch op {
	case token.ADD:
		return normBytesStr(append(append([]value{}, a.b...), b.b...))
	case token.EQL:
		return r.bytesStrEq(a, b)
	case token.NEQ:
		return r.notv(r.bytesStrEq(a, b))
	case token.LSS, token.LEQ, token.GTR, token.GEQ:
		// lexicographic comparison, forking byte by byte
		n := len(a.b)
		if len(b.b) < n {
			n = len(b.b)
		}
		cmp := 0
		for i := 0; i < n && cmp == 0; i++ {
			if r.truth(binop(r, token.LSS, nil, a.b[i], b.b[i])) {
				cmp = -1
			} else if r.truth(binop(r, token.GTR, nil, a.b[i], b.b[i])) {
				cmp = 1
			}
		}
		if cmp == 0 {
			cmp = len(a.b) - len(b.b)
		}
		switch op {
		case token.LSS:
			return cmp < 0
		case token.LEQ:
			return cmp <= 0
		case token.GTR:
			return cmp > 0
		default:
			return cmp >= 0
		}
	}
	panic(unsupported{fmt.Sprintf("operator %s on byte strings", op)})
}

// convBytesStr handles string <-> []byte conversions involving symbolic bytes.
func (r *Run) convBytesStr(dst, src types.Type, x value) (value, bool) {
	switch v := x.(type) {
	case symBytesStr:
		switch ud := dst.Underlying().(type) {
		case *types.Slice:
			if b, ok := ud.Elem().Underlying().(*types.Basic); ok && b.Kind() == types.Byte {
				cp := make([]value, len(v.b))
				copy(cp, v.b)
				return cp, true
			}
		case *types.Basic:
			if ud.Kind() == types.String {
				return v, true
			}
		}
		panic(unsupported{"conversion of a symbolic-byte string to " + dst.String()})
	case []value:
		if us, ok := src.Underlying().(*types.Slice); ok {
			if b, ok := us.Elem().Underlying().(*types.Basic); ok && b.Kind() == types.Byte {
				if ud, ok := dst.Underlying().(*types.Basic); ok && ud.Kind() == types.String {
					if len(v) == 1 {
						if c, ok := v[0].(atomChunk); ok {
							return symStr{c.t}, true
						}
					}
					for _, e := range v {
						if _, ok := e.(atomChunk); ok {
							panic(unsupported{"byte slice mixing atom bytes with other bytes"})
						}
					}
					return normBytesStr(v), true
				}
			}
		}
	}
	return nil, false
}
