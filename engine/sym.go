package main

// Symbolic scalar values and the operations on them.

import (
	"fmt"
	"go/token"
	"go/types"
	"math"
	"math/big"
)

type symInt struct {
	t      *Term
	bits   int
	signed bool
	goKind types.BasicKind
}
type symBool struct{ t *Term }
type symFloat struct{ t *Term } // float64, encoding E2 (Real with rounding axioms)
type symFP struct{ t *Term }    // float64, encoding E1 (exact FloatingPoint), comparisons only
type symStr struct{ t *Term }   // atom string (Int-sorted identity)

// unsupported aborts the current run as inconclusive: the engine never invents behaviour.
type unsupported struct{ msg string }

func (u unsupported) Error() string { return "unsupported: " + u.msg }

func isSym(v value) bool {
	switch v.(type) {
	case symInt, symBool, symFloat, symStr, symFP:
		return true
	}
	return false
}

func kindInfo(k types.BasicKind) (bits int, signed bool) {
	switch k {
	case types.Int, types.Int64, types.UntypedInt:
		return 64, true
	case types.Int8:
		return 8, true
	case types.Int16:
		return 16, true
	case types.Int32, types.UntypedRune:
		return 32, true
	case types.Uint, types.Uint64, types.Uintptr:
		return 64, false
	case types.Uint8:
		return 8, false
	case types.Uint16:
		return 16, false
	case types.Uint32:
		return 32, false
	}
	panic(fmt.Sprintf("kindInfo: not an integer kind %v", k))
}

func hostKind(v value) (types.BasicKind, bool) {
	switch v.(type) {
	case int:
		return types.Int, true
	case int8:
		return types.Int8, true
	case int16:
		return types.Int16, true
	case int32:
		return types.Int32, true
	case int64:
		return types.Int64, true
	case uint:
		return types.Uint, true
	case uint8:
		return types.Uint8, true
	case uint16:
		return types.Uint16, true
	case uint32:
		return types.Uint32, true
	case uint64:
		return types.Uint64, true
	case uintptr:
		return types.Uintptr, true
	}
	return 0, false
}

func hostBig(v value) *big.Int {
	switch x := v.(type) {
	case uint:
		return new(big.Int).SetUint64(uint64(x))
	case uint64:
		return new(big.Int).SetUint64(x)
	case uintptr:
		return new(big.Int).SetUint64(uint64(x))
	}
	return big.NewInt(asInt64(v))
}

// mkInt builds a concrete host integer of kind k from a (wrapped, in-range) big value.
func mkInt(k types.BasicKind, b *big.Int) value {
	switch k {
	case types.Int, types.UntypedInt:
		return int(b.Int64())
	case types.Int8:
		return int8(b.Int64())
	case types.Int16:
		return int16(b.Int64())
	case types.Int32, types.UntypedRune:
		return int32(b.Int64())
	case types.Int64:
		return b.Int64()
	case types.Uint:
		return uint(b.Uint64())
	case types.Uint8:
		return uint8(b.Uint64())
	case types.Uint16:
		return uint16(b.Uint64())
	case types.Uint32:
		return uint32(b.Uint64())
	case types.Uint64:
		return b.Uint64()
	case types.Uintptr:
		return uintptr(b.Uint64())
	}
	panic("mkInt: bad kind")
}

func (r *Run) mkSymInt(t *Term, k types.BasicKind) value {
	if t.isCon {
		return mkInt(k, t.ival)
	}
	bits, signed := kindInfo(k)
	return symInt{t: t, bits: bits, signed: signed, goKind: k}
}

func (r *Run) mkSymBool(t *Term) value {
	if t.isCon {
		return t.bval
	}
	return symBool{t}
}

func (r *Run) mkSymFloat(t *Term) value {
	if t.isCon {
		f, _ := t.rval.Float64()
		return f
	}
	return symFloat{t}
}

// intTerm lifts an integer value (concrete or symbolic) to a term and reports its kind.
func (r *Run) intTerm(v value) (*Term, types.BasicKind) {
	if s, ok := v.(symInt); ok {
		return s.t, s.goKind
	}
	k, ok := hostKind(v)
	if !ok {
		panic(fmt.Sprintf("intTerm: not an integer: %T", v))
	}
	return r.tc.Int(hostBig(v)), k
}

func (r *Run) boolTerm(v value) *Term {
	switch b := v.(type) {
	case bool:
		return r.tc.Bool(b)
	case symBool:
		return b.t
	}
	panic(fmt.Sprintf("boolTerm: not a bool: %T", v))
}

func (r *Run) floatTerm(v value) *Term {
	switch f := v.(type) {
	case float64:
		if math.IsNaN(f) || math.IsInf(f, 0) {
			panic(unsupported{"NaN/Inf mixed with symbolic float (E2 is finite-only)"})
		}
		return r.tc.RealF(f)
	case float32:
		return r.tc.RealF(float64(f))
	case symFloat:
		return f.t
	}
	panic(fmt.Sprintf("floatTerm: not a float: %T", v))
}

func (r *Run) strTerm(v value) *Term {
	switch s := v.(type) {
	case string:
		return r.tc.Int64(r.tc.internStr(s))
	case symStr:
		return s.t
	}
	panic(fmt.Sprintf("strTerm: not a string: %T", v))
}

func (c *TermCtx) internStr(s string) int64 {
	if id, ok := c.strIDs[s]; ok {
		return id
	}
	id := int64(len(c.strIDs)) + 1000000
	c.strIDs[s] = id
	c.strByID[id] = s
	if c.strlenUsed {
		c.addAxiom(fmt.Sprintf("(assert (= (strlen %d) %d))", id, len(s)))
	}
	return id
}

func pow2(n uint64) *big.Int { return new(big.Int).Lsh(big.NewInt(1), uint(n)) }

// symBinop handles binary operators where at least one operand is symbolic.
func (r *Run) symBinop(op token.Token, t types.Type, x, y value) value {
	tc := r.tc
	// strings (atoms)
	if _, ok := x.(symStr); ok || func() bool { _, ok2 := y.(symStr); return ok2 }() {
		a, b := r.strTerm(x), r.strTerm(y)
		switch op {
		case token.EQL:
			return r.mkSymBool(tc.Eq(a, b))
		case token.NEQ:
			return r.mkSymBool(tc.Not(tc.Eq(a, b)))
		case token.ADD:
			return r.strConcat(x, y)
		}
		panic(unsupported{fmt.Sprintf("operator %s on atom strings", op)})
	}
	// booleans
	if _, ok := x.(symBool); ok || func() bool { _, ok2 := y.(symBool); return ok2 }() {
		a, b := r.boolTerm(x), r.boolTerm(y)
		switch op {
		case token.EQL:
			return r.mkSymBool(tc.Eq(a, b))
		case token.NEQ:
			return r.mkSymBool(tc.Not(tc.Eq(a, b)))
		case token.AND:
			return r.mkSymBool(tc.And(a, b))
		case token.OR:
			return r.mkSymBool(tc.Or(a, b))
		}
		panic(unsupported{fmt.Sprintf("operator %s on symbolic bools", op)})
	}
	// floats
	if isFloatVal(x) || isFloatVal(y) {
		if _, ok := x.(symFP); ok {
			return r.fpBinop(op, x, y)
		}
		if _, ok := y.(symFP); ok {
			return r.fpBinop(op, x, y)
		}
		a, b := r.floatTerm(x), r.floatTerm(y)
		if op == token.MUL && !a.isCon && !b.isCon {
			// symbolic x symbolic product: if one factor is an integer of small range, case-split it
			// (keeps the product linear instead of resorting to the uninterpreted rmul)
			if v := r.smallIntFactor(a); v != nil {
				a = v
			} else if v := r.smallIntFactor(b); v != nil {
				b = v
			}
		}
		switch op {
		case token.ADD:
			return r.mkSymFloat(tc.Fl(tc.RBin("+", a, b)))
		case token.SUB:
			return r.mkSymFloat(tc.Fl(tc.RBin("-", a, b)))
		case token.MUL:
			return r.mkSymFloat(tc.Fl(tc.RBin("*", a, b)))
		case token.QUO:
			nz := tc.Not(tc.Eq(b, tc.Real(big.NewRat(0, 1))))
			if !r.mustHold(nz) {
				panic(unsupported{"float division by a possibly-zero divisor (E2 encoding is finite-only)"})
			}
			return r.mkSymFloat(tc.Fl(tc.RBin("/", a, b)))
		case token.EQL:
			return r.mkSymBool(tc.Eq(a, b))
		case token.NEQ:
			return r.mkSymBool(tc.Not(tc.Eq(a, b)))
		case token.LSS:
			return r.mkSymBool(tc.Lt(a, b))
		case token.LEQ:
			return r.mkSymBool(tc.Le(a, b))
		case token.GTR:
			return r.mkSymBool(tc.Lt(b, a))
		case token.GEQ:
			return r.mkSymBool(tc.Le(b, a))
		}
		panic(unsupported{fmt.Sprintf("operator %s on symbolic floats", op)})
	}
	// integers
	if op == token.SHL || op == token.SHR {
		return r.symShift(op, x, y)
	}
	a, k := r.intTerm(x)
	b, _ := r.intTerm(y)
	bits, signed := kindInfo(k)
	wrap := func(e *Term) value { return r.mkSymInt(tc.Wrap(e, bits, signed), k) }
	switch op {
	case token.ADD:
		return wrap(tc.Add(a, b))
	case token.SUB:
		return wrap(tc.Sub(a, b))
	case token.MUL:
		return wrap(tc.Mul(a, b))
	case token.QUO, token.REM:
		if !b.isCon || b.ival.Sign() == 0 {
			zero := tc.Eq(b, tc.Int64(0))
			if r.branch(zero) {
				panic(r.runtimePanic("integer divide by zero"))
			}
		}
		if op == token.QUO {
			return wrap(tc.TDiv(a, b)) // MinInt / -1 wraps
		}
		return r.mkSymInt(tc.TMod(a, b), k)
	case token.AND:
		return r.symBitAnd(a, b, k)
	case token.OR, token.XOR, token.AND_NOT:
		return r.symBitGeneric(op, a, b, k)
	case token.EQL:
		return r.mkSymBool(tc.Eq(a, b))
	case token.NEQ:
		return r.mkSymBool(tc.Not(tc.Eq(a, b)))
	case token.LSS:
		return r.mkSymBool(tc.Lt(a, b))
	case token.LEQ:
		return r.mkSymBool(tc.Le(a, b))
	case token.GTR:
		return r.mkSymBool(tc.Lt(b, a))
	case token.GEQ:
		return r.mkSymBool(tc.Le(b, a))
	}
	panic(unsupported{fmt.Sprintf("symbolic binop %s", op)})
}

func isFloatVal(v value) bool {
	switch v.(type) {
	case float64, float32, symFloat, symFP:
		return true
	}
	return false
}

func (r *Run) symShift(op token.Token, x, y value) value {
	tc := r.tc
	a, k := r.intTerm(x)
	bits, signed := kindInfo(k)
	var n uint64
	if sy, ok := y.(symInt); ok {
		n = r.concretize(sy.t).Uint64()
	} else {
		if yv := hostBig(y); yv.Sign() < 0 {
			panic(r.runtimePanic("negative shift amount"))
		} else {
			n = yv.Uint64()
		}
	}
	if op == token.SHL {
		if n >= uint64(bits) {
			return mkInt(k, big.NewInt(0))
		}
		return r.mkSymInt(tc.Wrap(tc.Mul(a, tc.Int(pow2(n))), bits, signed), k)
	}
	if n >= uint64(bits) {
		if signed {
			return r.mkSymInt(tc.Ite(tc.Lt(a, tc.Int64(0)), tc.Int64(-1), tc.Int64(0)), k)
		}
		return mkInt(k, big.NewInt(0))
	}
	return r.mkSymInt(tc.FDiv(a, pow2(n)), k)
}

func (r *Run) symBitAnd(a, b *Term, k types.BasicKind) value {
	tc := r.tc
	bits, signed := kindInfo(k)
	if a.isCon {
		a, b = b, a
	}
	if b.isCon {
		m := new(big.Int).Set(b.ival)
		if m.Sign() < 0 { // two's complement view
			m.Add(m, pow2(uint64(bits)))
		}
		if m.Sign() == 0 {
			return mkInt(k, big.NewInt(0))
		}
		// mask of the form 2^j - 1
		m1 := new(big.Int).Add(m, big.NewInt(1))
		if new(big.Int).And(m1, m).Sign() == 0 {
			j := uint64(m1.BitLen() - 1)
			if j >= uint64(bits) {
				return r.mkSymInt(a, k)
			}
			return r.mkSymInt(tc.Wrap(tc.EMod(a, pow2(j)), bits, signed), k)
		}
		// contiguous mask 2^hi - 2^lo : (a mod 2^hi) - (a mod 2^lo)
		lo := uint64(0)
		for m.Bit(int(lo)) == 0 {
			lo++
		}
		sh := new(big.Int).Rsh(m, uint(lo))
		sh1 := new(big.Int).Add(sh, big.NewInt(1))
		if new(big.Int).And(sh1, sh).Sign() == 0 {
			hi := lo + uint64(sh1.BitLen()-1)
			e := tc.Sub(tc.EMod(a, pow2(hi)), tc.EMod(a, pow2(lo)))
			return r.mkSymInt(tc.Wrap(e, bits, signed), k)
		}
	}
	return r.symBitGeneric(token.AND, a, b, k)
}

func (r *Run) symBitGeneric(op token.Token, a, b *Term, k types.BasicKind) value {
	tc := r.tc
	bits, signed := kindInfo(k)
	var f string
	switch op {
	case token.AND:
		f = "bvand"
	case token.OR:
		f = "bvor"
	case token.XOR:
		f = "bvxor"
	case token.AND_NOT:
		f = "bvand"
	}
	bx := fmt.Sprintf("((_ int2bv %d) $0)", bits)
	by := fmt.Sprintf("((_ int2bv %d) $1)", bits)
	if op == token.AND_NOT {
		by = "(bvnot " + by + ")"
	}
	t := tc.Raw(SInt, fmt.Sprintf("(bv2nat (%s %s %s))", f, bx, by), a, b)
	t.lo, t.hi = big.NewInt(0), new(big.Int).Sub(pow2(uint64(bits)), big.NewInt(1))
	return r.mkSymInt(tc.Wrap(t, bits, signed), k)
}

func (r *Run) symUnop(op token.Token, x value) value {
	tc := r.tc
	switch v := x.(type) {
	case symBool:
		if op == token.NOT {
			return r.mkSymBool(tc.Not(v.t))
		}
	case symInt:
		switch op {
		case token.SUB:
			return r.mkSymInt(tc.Wrap(tc.Neg(v.t), v.bits, v.signed), v.goKind)
		case token.XOR: // ^x = -x-1 (signed), 2^w-1-x (unsigned)
			if v.signed {
				return r.mkSymInt(tc.Sub(tc.Neg(v.t), tc.Int64(1)), v.goKind)
			}
			return r.mkSymInt(tc.Sub(tc.Int(new(big.Int).Sub(pow2(uint64(v.bits)), big.NewInt(1))), v.t), v.goKind)
		}
	case symFloat:
		if op == token.SUB {
			return r.mkSymFloat(tc.RBin("-", tc.Real(big.NewRat(0, 1)), v.t))
		}
	}
	panic(unsupported{fmt.Sprintf("symbolic unop %s on %T", op, x)})
}

// symConv converts a symbolic scalar to the basic type dst.
func (r *Run) symConv(dst *types.Basic, x value) value {
	tc := r.tc
	info := dst.Info()
	switch v := x.(type) {
	case symInt:
		if info&types.IsInteger != 0 {
			bits, signed := kindInfo(dst.Kind())
			return r.mkSymInt(tc.Wrap(v.t, bits, signed), dst.Kind())
		}
		if info&types.IsFloat != 0 {
			if dst.Kind() == types.Float32 {
				panic(unsupported{"symbolic int -> float32"})
			}
			e := tc.ToReal(v.t)
			if v.t.lo != nil && v.t.hi != nil && new(big.Int).Abs(v.t.lo).Cmp(two53) <= 0 && new(big.Int).Abs(v.t.hi).Cmp(two53) <= 0 {
				return r.mkSymFloat(e) // exact
			}
			return r.mkSymFloat(tc.Fl(e))
		}
		if info&types.IsString != 0 {
			panic(unsupported{"symbolic int -> string"})
		}
	case symFloat:
		if info&types.IsFloat != 0 {
			if dst.Kind() == types.Float32 {
				panic(unsupported{"symbolic float64 -> float32"})
			}
			return v
		}
		if info&types.IsInteger != 0 {
			bits, signed := kindInfo(dst.Kind())
			lo, hi := typeRange(bits, signed)
			tr := tc.Trunc(v.t)
			inRange := tc.And(tc.Le(tc.Int(lo), tr), tc.Le(tr, tc.Int(hi)))
			if !r.mustHold(inRange) {
				panic(unsupported{"float -> int conversion may overflow (implementation-defined)"})
			}
			tr.lo, tr.hi = lo, hi
			if signed && r.concrete == nil {
				// if the value is non-negative on this path, continue with max(tr, 0): equal here, and
				// universally non-negative, which keeps later div/mod/wrap operations simple
				if r.mustHoldQuiet(tc.Le(tc.Int64(0), tr)) {
					nn := tc.Ite(tc.Le(tc.Int64(0), tr), tr, tc.Int64(0))
					nn.lo, nn.hi = big.NewInt(0), hi
					return r.mkSymInt(nn, dst.Kind())
				}
			}
			return r.mkSymInt(tr, dst.Kind())
		}
	case symStr:
		if info&types.IsString != 0 {
			return v
		}
	case symBool:
		if info&types.IsBoolean != 0 {
			return v
		}
	}
	panic(unsupported{fmt.Sprintf("symbolic conversion %T -> %s", x, dst)})
}

// strConcat: atoms concatenate through an uninterpreted function; see DESIGN 2.3.
func (r *Run) strConcat(x, y value) value {
	tc := r.tc
	if s, ok := x.(string); ok && s == "" {
		return y
	}
	if s, ok := y.(string); ok && s == "" {
		return x
	}
	a, b := r.strTerm(x), r.strTerm(y)
	t := tc.Raw(SInt, "(strcat $0 $1)", a, b)
	r.w.noteCat(t, a, b)
	return symStr{t}
}

// ---- FP (E1) comparisons

func (r *Run) fpTerm(v value) *Term {
	switch f := v.(type) {
	case symFP:
		return f.t
	case float64:
		return r.tc.Raw(SFP, fpLit(f))
	}
	panic(unsupported{fmt.Sprintf("fpTerm of %T", v)})
}

func fpLit(f float64) string {
	b := math.Float64bits(f)
	return fmt.Sprintf("(fp #b%01b #b%011b #x%013x)", b>>63, (b>>52)&0x7ff, b&((1<<52)-1))
}

func (r *Run) fpBinop(op token.Token, x, y value) value {
	a, b := r.fpTerm(x), r.fpTerm(y)
	tc := r.tc
	switch op {
	case token.EQL:
		return r.mkSymBool(tc.Raw(SBool, "(fp.eq $0 $1)", a, b))
	case token.NEQ:
		return r.mkSymBool(tc.Not(tc.Raw(SBool, "(fp.eq $0 $1)", a, b)))
	case token.LSS:
		return r.mkSymBool(tc.Raw(SBool, "(fp.lt $0 $1)", a, b))
	case token.LEQ:
		return r.mkSymBool(tc.Raw(SBool, "(fp.leq $0 $1)", a, b))
	case token.GTR:
		return r.mkSymBool(tc.Raw(SBool, "(fp.gt $0 $1)", a, b))
	case token.GEQ:
		return r.mkSymBool(tc.Raw(SBool, "(fp.geq $0 $1)", a, b))
	case token.ADD, token.SUB, token.MUL, token.QUO:
		f := map[token.Token]string{token.ADD: "fp.add", token.SUB: "fp.sub", token.MUL: "fp.mul", token.QUO: "fp.div"}[op]
		return symFP{tc.Raw(SFP, "("+f+" RNE $0 $1)", a, b)}
	}
	panic(unsupported{fmt.Sprintf("operator %s on exact-FP floats", op)})
}

// StrLen: the length of an atom string is an uninterpreted function of its identity, pinned to
// the real length for every concrete string the run has met (so atoms may equal concrete strings).
func (c *TermCtx) StrLen(t *Term) *Term {
	if !c.strlenUsed {
		c.strlenUsed = true
		for s, id := range c.strIDs {
			c.addAxiom(fmt.Sprintf("(assert (= (strlen %d) %d))", id, len(s)))
		}
	}
	r := c.Raw(SInt, "(strlen $0)", t)
	if r.lo == nil {
		c.addAxiom(fmt.Sprintf("(assert (>= (strlen %s) 0))", t.name), t)
		// the only string of length zero is "": a zero-length atom IS the empty string
		empty := c.internStr("")
		c.addAxiom(fmt.Sprintf("(assert (=> (= (strlen %s) 0) (= %s %d)))", t.name, t.name, empty), t)
	}
	r.lo = big.NewInt(0)
	r.hi = big.NewInt(1 << 30)
	return r
}

// smallIntFactor: t = to_real(i) with i an integer term whose interval has at most 17 values:
// concretise i (forking over its feasible values) and return the constant.
func (r *Run) smallIntFactor(t *Term) *Term {
	if t.op != "to_real" || len(t.args) != 1 {
		return nil
	}
	i := t.args[0]
	if i.lo == nil || i.hi == nil || new(big.Int).Sub(i.hi, i.lo).Cmp(big.NewInt(16)) > 0 {
		return nil
	}
	v := r.concretize(i)
	return r.tc.Real(new(big.Rat).SetInt(v))
}
