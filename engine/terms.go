package main

// Hash-consed SMT terms with constant folding and (for Int sort) conservative intervals.
// Every worker owns one *TermCtx; terms are never shared between workers.

import (
	"fmt"
	"math/big"
	"strings"
)

type Sort uint8

const (
	SInt Sort = iota
	SBool
	SReal
	SFP // FloatingPoint 11 53 (exact encoding E1)
)

func (s Sort) String() string {
	switch s {
	case SInt:
		return "Int"
	case SBool:
		return "Bool"
	case SReal:
		return "Real"
	case SFP:
		return "(_ FloatingPoint 11 53)"
	}
	return "?"
}

type Term struct {
	id     int
	sort   Sort
	op     string  // operator, "const", "var"
	args   []*Term // operands
	name   string  // SMT name: tN, or variable name, or literal text
	ival   *big.Int // Int constant value
	bval   bool     // Bool constant value
	rval   *big.Rat // Real constant value
	isCon  bool
	lo, hi *big.Int // Int interval (nil = unbounded on that side)
	intVal bool     // Real sort: value known to be an integer
	exact  bool     // Real sort: value known to be exactly representable as a float64
	sent   bool     // definition already sent to solver
	extra  string   // raw SMT text for op=="raw"
}

func (t *Term) String() string { return t.name }

// loggedAxiom: a global assertion and the terms whose names it mentions.
type loggedAxiom struct {
	text string
	deps []*Term
}

func (c *TermCtx) addAxiom(text string, deps ...*Term) {
	c.axioms = append(c.axioms, text)
	c.axiomLog = append(c.axiomLog, loggedAxiom{text, deps})
}

type TermCtx struct {
	terms   map[string]*Term
	all     []*Term
	nextID  int
	vars    []*Term // declared variables in creation order
	varByNm map[string]*Term
	axioms  []string // global assertions not yet sent
	axiomLog []loggedAxiom // every global assertion ever made, with the terms it mentions (fresh-solver retries)
	flTerms []*Term  // applications of fl (E2 rounding)
	anchors []*big.Rat
	noEps   bool // E2 without the relative-error axiom (ordering/anchor reasoning only)
	symAnchors []*Term // exact non-constant reals (e.g. to_real of a bounded integer)
	flSymAnch  map[int]int
	anchorSet map[string]bool
	flAnchored map[int]int // fl term id -> number of anchors already instantiated
	flPairs    int         // number of fl terms already pairwise-instantiated
	True, False *Term
	strIDs   map[string]int64 // interned concrete strings (atoms)
	strByID  map[int64]string
	strlenUsed bool
}

func NewTermCtx() *TermCtx {
	c := &TermCtx{terms: map[string]*Term{}, varByNm: map[string]*Term{}, anchorSet: map[string]bool{}, flAnchored: map[int]int{}, flSymAnch: map[int]int{}, strIDs: map[string]int64{}, strByID: map[int64]string{}}
	c.True = c.mk(&Term{sort: SBool, op: "const", isCon: true, bval: true, name: "true"})
	c.False = c.mk(&Term{sort: SBool, op: "const", isCon: true, bval: false, name: "false"})
	c.addAnchor(big.NewRat(0, 1))
	c.addAnchor(big.NewRat(1, 1))
	// a tiny representable constant: rounding cannot turn a value >= 2^-100 into zero or change its sign
	tiny := new(big.Rat).SetFrac(big.NewInt(1), new(big.Int).Lsh(big.NewInt(1), 100))
	c.addAnchor(tiny)
	c.addAnchor(new(big.Rat).Neg(tiny))
	return c
}

func (c *TermCtx) key(t *Term) string {
	var sb strings.Builder
	sb.WriteString(t.op)
	sb.WriteByte('|')
	sb.WriteString(t.sort.String())
	if t.op == "const" || t.op == "var" || t.op == "raw" {
		sb.WriteByte('|')
		sb.WriteString(t.name)
		sb.WriteString(t.extra)
	}
	for _, a := range t.args {
		fmt.Fprintf(&sb, "|%d", a.id)
	}
	return sb.String()
}

func (c *TermCtx) mk(t *Term) *Term {
	k := c.key(t)
	if o, ok := c.terms[k]; ok {
		return o
	}
	t.id = c.nextID
	c.nextID++
	if t.name == "" {
		t.name = fmt.Sprintf("t%d", t.id)
	}
	if t.op == "const" || t.op == "var" {
		t.sent = t.op == "const"
	}
	c.terms[k] = t
	c.all = append(c.all, t)
	return t
}

// ---------- constants and variables

func smtInt(v *big.Int) string {
	if v.Sign() < 0 {
		return "(- " + new(big.Int).Neg(v).String() + ")"
	}
	return v.String()
}

func smtRat(r *big.Rat) string {
	num, den := r.Num(), r.Denom()
	s := ""
	if den.Cmp(big.NewInt(1)) == 0 {
		s = new(big.Int).Abs(num).String() + ".0"
	} else {
		s = "(/ " + new(big.Int).Abs(num).String() + ".0 " + den.String() + ".0)"
	}
	if num.Sign() < 0 {
		return "(- " + s + ")"
	}
	return s
}

func (c *TermCtx) Int(v *big.Int) *Term {
	v = new(big.Int).Set(v)
	return c.mk(&Term{sort: SInt, op: "const", isCon: true, ival: v, lo: v, hi: v, name: smtInt(v)})
}
func (c *TermCtx) Int64(v int64) *Term   { return c.Int(big.NewInt(v)) }
func (c *TermCtx) Uint64(v uint64) *Term { return c.Int(new(big.Int).SetUint64(v)) }
func (c *TermCtx) Bool(b bool) *Term {
	if b {
		return c.True
	}
	return c.False
}
func (c *TermCtx) Real(r *big.Rat) *Term {
	r = new(big.Rat).Set(r)
	_, ex := r.Float64()
	return c.mk(&Term{sort: SReal, op: "const", isCon: true, rval: r, name: smtRat(r), intVal: r.IsInt(), exact: ex})
}
func (c *TermCtx) RealF(f float64) *Term {
	r := new(big.Rat)
	if r.SetFloat64(f) == nil {
		panic(unsupported{"non-finite float constant in symbolic expression"})
	}
	c.addAnchor(r)
	return c.Real(r)
}

// Var declares (or returns) a variable. lo/hi may be nil.
func (c *TermCtx) Var(name string, s Sort, lo, hi *big.Int) *Term {
	if v, ok := c.varByNm[name]; ok {
		return v
	}
	t := c.mk(&Term{sort: s, op: "var", name: smtName(name), lo: lo, hi: hi})
	c.varByNm[name] = t
	c.vars = append(c.vars, t)
	return t
}

func smtName(n string) string {
	ok := true
	for _, r := range n {
		if !(r >= 'a' && r <= 'z' || r >= 'A' && r <= 'Z' || r >= '0' && r <= '9' || r == '_' || r == '.' || r == '@' || r == '-') {
			ok = false
		}
	}
	if ok && n != "" && !(n[0] >= '0' && n[0] <= '9') {
		return n
	}
	return "|" + strings.ReplaceAll(n, "|", "!") + "|"
}

// ---------- intervals helpers

func bmin(a, b *big.Int) *big.Int {
	if a == nil || b == nil {
		return nil
	}
	if a.Cmp(b) <= 0 {
		return a
	}
	return b
}
func bmax(a, b *big.Int) *big.Int {
	if a == nil || b == nil {
		return nil
	}
	if a.Cmp(b) >= 0 {
		return a
	}
	return b
}
func badd(a, b *big.Int) *big.Int {
	if a == nil || b == nil {
		return nil
	}
	return new(big.Int).Add(a, b)
}
func bsub(a, b *big.Int) *big.Int {
	if a == nil || b == nil {
		return nil
	}
	return new(big.Int).Sub(a, b)
}

// ---------- Int operations (mathematical integers; wrapping is done by callers)

func (c *TermCtx) nary(op string, s Sort, args ...*Term) *Term {
	return c.mk(&Term{sort: s, op: op, args: args})
}

func (c *TermCtx) Add(a, b *Term) *Term {
	if a.isCon && b.isCon {
		return c.Int(new(big.Int).Add(a.ival, b.ival))
	}
	if a.isCon && a.ival.Sign() == 0 {
		return b
	}
	if b.isCon && b.ival.Sign() == 0 {
		return a
	}
	// (x + c1) + c2 => x + (c1+c2)
	if b.isCon && a.op == "+" && len(a.args) == 2 && a.args[1].isCon {
		return c.Add(a.args[0], c.Int(new(big.Int).Add(a.args[1].ival, b.ival)))
	}
	if a.isCon {
		a, b = b, a
	}
	t := c.nary("+", SInt, a, b)
	if t.lo == nil && t.hi == nil {
		t.lo, t.hi = badd(a.lo, b.lo), badd(a.hi, b.hi)
	}
	return t
}

func (c *TermCtx) Sub(a, b *Term) *Term {
	if a.isCon && b.isCon {
		return c.Int(new(big.Int).Sub(a.ival, b.ival))
	}
	if b.isCon {
		return c.Add(a, c.Int(new(big.Int).Neg(b.ival)))
	}
	if a == b {
		return c.Int64(0)
	}
	if b.op == "-" && len(b.args) == 2 && b.args[0] == a {
		return b.args[1] // a - (a - x) = x
	}
	if a.op == "+" && len(a.args) == 2 && a.args[0] == b {
		return a.args[1] // (b + x) - b = x
	}
	t := c.nary("-", SInt, a, b)
	if t.lo == nil && t.hi == nil {
		t.lo, t.hi = bsub(a.lo, b.hi), bsub(a.hi, b.lo)
	}
	return t
}

func (c *TermCtx) Neg(a *Term) *Term { return c.Sub(c.Int64(0), a) }

func (c *TermCtx) Mul(a, b *Term) *Term {
	if a.isCon && b.isCon {
		return c.Int(new(big.Int).Mul(a.ival, b.ival))
	}
	if a.isCon {
		a, b = b, a
	}
	if b.isCon {
		if b.ival.Sign() == 0 {
			return b
		}
		if b.ival.Cmp(big.NewInt(1)) == 0 {
			return a
		}
	}
	t := c.nary("*", SInt, a, b)
	if t.lo == nil && t.hi == nil && a.lo != nil && a.hi != nil && b.lo != nil && b.hi != nil {
		ps := []*big.Int{new(big.Int).Mul(a.lo, b.lo), new(big.Int).Mul(a.lo, b.hi), new(big.Int).Mul(a.hi, b.lo), new(big.Int).Mul(a.hi, b.hi)}
		lo, hi := ps[0], ps[0]
		for _, p := range ps[1:] {
			lo, hi = bmin(lo, p), bmax(hi, p)
		}
		t.lo, t.hi = lo, hi
	}
	return t
}

func nonneg(t *Term) bool { return t.lo != nil && t.lo.Sign() >= 0 }
func pos(t *Term) bool    { return t.lo != nil && t.lo.Sign() > 0 }

// TDiv: Go's truncated division (divisor known non-zero by caller).
func (c *TermCtx) TDiv(a, b *Term) *Term {
	if a.isCon && b.isCon && b.ival.Sign() != 0 {
		return c.Int(new(big.Int).Quo(a.ival, b.ival))
	}
	if b.isCon && b.ival.Cmp(big.NewInt(1)) == 0 {
		return a
	}
	if nonneg(a) && pos(b) {
		t := c.nary("div", SInt, a, b)
		if t.lo == nil && t.hi == nil {
			t.lo = big.NewInt(0)
			if a.hi != nil {
				t.hi = new(big.Int).Quo(a.hi, b.lo)
			}
		}
		return t
	}
	t := c.nary("tdiv", SInt, a, b)
	if t.lo == nil && t.hi == nil && a.lo != nil && a.hi != nil {
		m := bmax(new(big.Int).Abs(a.lo), new(big.Int).Abs(a.hi))
		t.lo, t.hi = new(big.Int).Neg(m), m
	}
	return t
}

// TMod: Go's remainder (sign follows dividend).
func (c *TermCtx) TMod(a, b *Term) *Term {
	if a.isCon && b.isCon && b.ival.Sign() != 0 {
		return c.Int(new(big.Int).Rem(a.ival, b.ival))
	}
	if nonneg(a) && pos(b) {
		if a.hi != nil && a.hi.Cmp(b.lo) < 0 {
			return a
		}
		t := c.nary("mod", SInt, a, b)
		if t.lo == nil && t.hi == nil {
			t.lo = big.NewInt(0)
			if b.hi != nil {
				t.hi = new(big.Int).Sub(b.hi, big.NewInt(1))
				if a.hi != nil {
					t.hi = bmin(t.hi, a.hi)
				}
			}
		}
		return t
	}
	t := c.nary("tmod", SInt, a, b)
	if t.lo == nil && t.hi == nil && b.lo != nil && b.hi != nil {
		m := bmax(new(big.Int).Abs(b.lo), new(big.Int).Abs(b.hi))
		m = new(big.Int).Sub(m, big.NewInt(1))
		t.lo, t.hi = new(big.Int).Neg(m), m
		if nonneg(a) {
			t.lo = big.NewInt(0)
		}
	}
	return t
}

// EMod: Euclidean modulo by a positive constant (used for wrap and masks).
func (c *TermCtx) EMod(a *Term, m *big.Int) *Term {
	if a.isCon {
		return c.Int(new(big.Int).Mod(a.ival, m))
	}
	if nonneg(a) && a.hi != nil && a.hi.Cmp(m) < 0 {
		return a
	}
	t := c.nary("mod", SInt, a, c.Int(m))
	if t.lo == nil && t.hi == nil {
		t.lo, t.hi = big.NewInt(0), new(big.Int).Sub(m, big.NewInt(1))
	}
	return t
}

// FDiv: floor division by a positive constant (arithmetic shift right).
func (c *TermCtx) FDiv(a *Term, m *big.Int) *Term {
	if a.isCon {
		return c.Int(new(big.Int).Div(a.ival, m)) // Euclidean == floor for m>0
	}
	t := c.nary("div", SInt, a, c.Int(m))
	if t.lo == nil && t.hi == nil {
		if a.lo != nil {
			t.lo = new(big.Int).Div(a.lo, m)
		}
		if a.hi != nil {
			t.hi = new(big.Int).Div(a.hi, m)
		}
	}
	return t
}

// Wrap reduces a mathematical integer to the value range of a Go integer type.
func (c *TermCtx) Wrap(a *Term, bits int, signed bool) *Term {
	lo, hi := typeRange(bits, signed)
	if a.lo != nil && a.hi != nil && a.lo.Cmp(lo) >= 0 && a.hi.Cmp(hi) <= 0 {
		return a
	}
	two := new(big.Int).Lsh(big.NewInt(1), uint(bits))
	if a.isCon {
		v := new(big.Int).Mod(a.ival, two)
		if signed && v.Cmp(hi) > 0 {
			v.Sub(v, two)
		}
		return c.Int(v)
	}
	var t *Term
	if signed {
		half := new(big.Int).Lsh(big.NewInt(1), uint(bits-1))
		t = c.Sub(c.EMod(c.Add(a, c.Int(half)), two), c.Int(half))
	} else {
		t = c.EMod(a, two)
	}
	if t.lo == nil || t.lo.Cmp(lo) < 0 {
		t.lo = lo
	}
	if t.hi == nil || t.hi.Cmp(hi) > 0 {
		t.hi = hi
	}
	return t
}

func typeRange(bits int, signed bool) (*big.Int, *big.Int) {
	if signed {
		h := new(big.Int).Lsh(big.NewInt(1), uint(bits-1))
		return new(big.Int).Neg(h), new(big.Int).Sub(h, big.NewInt(1))
	}
	return big.NewInt(0), new(big.Int).Sub(new(big.Int).Lsh(big.NewInt(1), uint(bits)), big.NewInt(1))
}

// ---------- comparisons

func (c *TermCtx) Eq(a, b *Term) *Term {
	if a == b {
		return c.True
	}
	if a.isCon && b.isCon {
		switch a.sort {
		case SInt:
			return c.Bool(a.ival.Cmp(b.ival) == 0)
		case SBool:
			return c.Bool(a.bval == b.bval)
		case SReal:
			return c.Bool(a.rval.Cmp(b.rval) == 0)
		}
	}
	if a.sort == SInt {
		if a.hi != nil && b.lo != nil && a.hi.Cmp(b.lo) < 0 {
			return c.False
		}
		if b.hi != nil && a.lo != nil && b.hi.Cmp(a.lo) < 0 {
			return c.False
		}
	}
	if a.sort == SBool {
		if a.isCon {
			if a.bval {
				return b
			}
			return c.Not(b)
		}
		if b.isCon {
			if b.bval {
				return a
			}
			return c.Not(a)
		}
	}
	if a.id > b.id {
		a, b = b, a
	}
	return c.nary("=", SBool, a, b)
}

func (c *TermCtx) Lt(a, b *Term) *Term {
	if a.isCon && b.isCon {
		if a.sort == SInt {
			return c.Bool(a.ival.Cmp(b.ival) < 0)
		}
		return c.Bool(a.rval.Cmp(b.rval) < 0)
	}
	if a == b {
		return c.False
	}
	if a.sort == SInt {
		if a.hi != nil && b.lo != nil && a.hi.Cmp(b.lo) < 0 {
			return c.True
		}
		if a.lo != nil && b.hi != nil && a.lo.Cmp(b.hi) >= 0 {
			return c.False
		}
	}
	return c.nary("<", SBool, a, b)
}

func (c *TermCtx) Le(a, b *Term) *Term {
	if a.isCon && b.isCon {
		if a.sort == SInt {
			return c.Bool(a.ival.Cmp(b.ival) <= 0)
		}
		return c.Bool(a.rval.Cmp(b.rval) <= 0)
	}
	if a == b {
		return c.True
	}
	if a.sort == SInt {
		if a.hi != nil && b.lo != nil && a.hi.Cmp(b.lo) <= 0 {
			return c.True
		}
		if a.lo != nil && b.hi != nil && a.lo.Cmp(b.hi) > 0 {
			return c.False
		}
	}
	return c.nary("<=", SBool, a, b)
}

// ---------- booleans

func (c *TermCtx) Not(a *Term) *Term {
	if a.isCon {
		return c.Bool(!a.bval)
	}
	if a.op == "not" {
		return a.args[0]
	}
	return c.nary("not", SBool, a)
}

func (c *TermCtx) And(a, b *Term) *Term {
	if a.isCon {
		if a.bval {
			return b
		}
		return c.False
	}
	if b.isCon {
		if b.bval {
			return a
		}
		return c.False
	}
	if a == b {
		return a
	}
	return c.nary("and", SBool, a, b)
}

func (c *TermCtx) Or(a, b *Term) *Term {
	if a.isCon {
		if a.bval {
			return c.True
		}
		return b
	}
	if b.isCon {
		if b.bval {
			return c.True
		}
		return a
	}
	if a == b {
		return a
	}
	return c.nary("or", SBool, a, b)
}

func (c *TermCtx) Ite(cond, a, b *Term) *Term {
	if cond.isCon {
		if cond.bval {
			return a
		}
		return b
	}
	if a == b {
		return a
	}
	if a.sort == SBool {
		return c.Or(c.And(cond, a), c.And(c.Not(cond), b))
	}
	t := c.nary("ite", a.sort, cond, a, b)
	if a.sort == SInt && t.lo == nil && t.hi == nil {
		t.lo, t.hi = bmin(a.lo, b.lo), bmax(a.hi, b.hi)
	}
	if a.sort == SReal {
		t.intVal = a.intVal && b.intVal
		t.exact = a.exact && b.exact
	}
	return t
}

// ---------- reals (float64 relaxation E2)

func (c *TermCtx) ToReal(a *Term) *Term {
	if a.isCon {
		return c.Real(new(big.Rat).SetInt(a.ival))
	}
	t := c.nary("to_real", SReal, a)
	t.intVal = true
	if a.lo != nil && a.hi != nil && new(big.Int).Abs(a.lo).Cmp(two53) <= 0 && new(big.Int).Abs(a.hi).Cmp(two53) <= 0 {
		if !t.exact && len(c.symAnchors) < 32 {
			c.symAnchors = append(c.symAnchors, t)
		}
		t.exact = true
	}
	return t
}

func (c *TermCtx) RBin(op string, a, b *Term) *Term {
	if a.isCon && b.isCon {
		r := new(big.Rat)
		switch op {
		case "+":
			return c.Real(r.Add(a.rval, b.rval))
		case "-":
			return c.Real(r.Sub(a.rval, b.rval))
		case "*":
			return c.Real(r.Mul(a.rval, b.rval))
		case "/":
			if b.rval.Sign() != 0 {
				return c.Real(r.Quo(a.rval, b.rval))
			}
		}
	}
	isC := func(t *Term, v int64) bool { return t.isCon && t.rval.Cmp(big.NewRat(v, 1)) == 0 }
	switch op {
	case "+":
		if isC(a, 0) {
			return b
		}
		if isC(b, 0) {
			return a
		}
	case "-":
		if isC(b, 0) {
			return a
		}
	case "*":
		if isC(a, 1) {
			return b
		}
		if isC(b, 1) {
			return a
		}
		if isC(a, 0) || isC(b, 0) {
			return c.Real(big.NewRat(0, 1))
		}
		if !a.isCon && !b.isCon {
			// symbolic x symbolic: uninterpreted product with instantiated sign/unit/contraction axioms
			if a.id > b.id {
				a, b = b, a
			}
			t := c.mk(&Term{sort: SReal, op: "rmul", args: []*Term{a, b}})
			c.regAnchored(t)
			t.intVal = a.intVal && b.intVal
			return t
		}
	case "/":
		if isC(b, 1) {
			return a
		}
		if isC(a, 0) {
			return a
		}
		if !b.isCon {
			// division by a symbolic divisor: uninterpreted quotient related to its operands through
			// linear anchor instances  (q >= c  <=>  a >= c*b  for b > 0, every constant c in scope)
			t := c.mk(&Term{sort: SReal, op: "rdiv", args: []*Term{a, b}})
			c.regAnchored(t)
			return t
		}
	}
	t := c.nary(op, SReal, a, b)
	t.intVal = op != "/" && a.intVal && b.intVal
	return t
}

func (c *TermCtx) regAnchored(t *Term) {
	if t.extra == "" {
		t.extra = "reg"
		c.flTerms = append(c.flTerms, t)
	}
}

// Fl models rounding to nearest float64 of the exact real e (see DESIGN 2.3, E2).
func (c *TermCtx) Fl(e *Term) *Term {
	if e.isCon {
		f, exact := e.rval.Float64()
		if exact {
			return e
		}
		r := new(big.Rat)
		r.SetFloat64(f)
		c.addAnchor(r)
		return c.Real(r)
	}
	if e.op == "fl" || e.exact {
		return e
	}
	t := c.mk(&Term{sort: SReal, op: "fl", args: []*Term{e}})
	t.exact = true
	c.regAnchored(t)
	return t
}

func (c *TermCtx) addAnchor(r *big.Rat) {
	k := r.String()
	if !c.anchorSet[k] {
		c.anchorSet[k] = true
		c.anchors = append(c.anchors, new(big.Rat).Set(r))
	}
}

// ToInt: truncation toward zero of a real.
func (c *TermCtx) Trunc(a *Term) *Term {
	if a.isCon {
		q := new(big.Int).Quo(a.rval.Num(), a.rval.Denom())
		return c.Int(q)
	}
	return c.nary("rtrunc", SInt, a)
}
func (c *TermCtx) Floor(a *Term) *Term {
	if a.isCon {
		q := new(big.Int).Div(a.rval.Num(), a.rval.Denom())
		return c.Int(q)
	}
	return c.nary("to_int", SInt, a)
}

// Raw builds an opaque term from SMT text over named sub-terms (used for FP encodings and UFs).
func (c *TermCtx) Raw(s Sort, text string, args ...*Term) *Term {
	return c.mk(&Term{sort: s, op: "raw", extra: text, args: args})
}

// ---------- emission

const smtPrelude = `(set-option :produce-models true)
(set-logic ALL)
(define-fun tdiv ((a Int) (b Int)) Int (ite (>= a 0) (ite (> b 0) (div a b) (- (div a (- b)))) (ite (> b 0) (- (div (- a) b)) (div (- a) (- b)))))
(define-fun tmod ((a Int) (b Int)) Int (- a (* b (tdiv a b))))
(define-fun rtrunc ((x Real)) Int (ite (>= x 0.0) (to_int x) (- (to_int (- x)))))
(define-fun rabs ((x Real)) Real (ite (>= x 0.0) x (- x)))
(declare-fun fl (Real) Real)
(declare-fun rdiv (Real Real) Real)
(declare-fun rmul (Real Real) Real)
(declare-fun strcat (Int Int) Int)
(declare-fun ufhash (Int) Int)
(declare-fun itoa (Int) Int)
(declare-fun strlen (Int) Int)
`

func (t *Term) expr() string {
	switch t.op {
	case "raw":
		s := t.extra
		for i, a := range t.args {
			s = strings.ReplaceAll(s, fmt.Sprintf("$%d", i), a.name)
		}
		return s
	case "fl":
		return "(fl " + t.args[0].name + ")"
	case "rdiv", "rmul":
		return "(" + t.op + " " + t.args[0].name + " " + t.args[1].name + ")"
	}
	var sb strings.Builder
	sb.WriteByte('(')
	sb.WriteString(t.op)
	for _, a := range t.args {
		sb.WriteByte(' ')
		sb.WriteString(a.name)
	}
	sb.WriteByte(')')
	return sb.String()
}

// emit appends to out the definitions needed for t (dependencies first).
func (c *TermCtx) emit(t *Term, out *strings.Builder) {
	if t.sent {
		return
	}
	// iterative post-order to avoid deep recursion
	type fr struct {
		t *Term
		i int
	}
	stack := []fr{{t, 0}}
	for len(stack) > 0 {
		top := &stack[len(stack)-1]
		if top.t.sent {
			stack = stack[:len(stack)-1]
			continue
		}
		if top.i < len(top.t.args) {
			a := top.t.args[top.i]
			top.i++
			if !a.sent {
				stack = append(stack, fr{a, 0})
			}
			continue
		}
		x := top.t
		stack = stack[:len(stack)-1]
		x.sent = true
		switch x.op {
		case "var":
			fmt.Fprintf(out, "(declare-const %s %s)\n", x.name, x.sort)
			if x.sort == SInt {
				if x.lo != nil {
					fmt.Fprintf(out, "(assert (>= %s %s))\n", x.name, smtInt(x.lo))
				}
				if x.hi != nil {
					fmt.Fprintf(out, "(assert (<= %s %s))\n", x.name, smtInt(x.hi))
				}
			}
		case "const":
		default:
			fmt.Fprintf(out, "(define-fun %s () %s %s)\n", x.name, x.sort, x.expr())
		}
	}
}

var twoM53 = new(big.Rat).SetFrac(big.NewInt(1), new(big.Int).Lsh(big.NewInt(1), 53))
var two53 = new(big.Int).Lsh(big.NewInt(1), 53)

// flAxioms emits the instantiated axioms for the anchored applications created so far.
//   fl(e):     relative error bound, exactness on integers up to 2^53, monotonicity against every
//              representable constant in scope (anchors) and pairwise between fl-applications;
//   rdiv(a,b): for every anchor c:  b>0 => (q>=c <=> a>=c*b) and (q<=c <=> a<=c*b), mirrored for b<0;
//   rmul(x,y): zero/unit/sign laws and contraction (0<=y<=1, x>=0 => 0<=p<=x).
// All of them are consequences of IEEE-754 RNE / real arithmetic, so the encoding over-approximates
// the concrete semantics: unsat is a proof, a model is only a candidate (it must reproduce concretely).
func (c *TermCtx) flAxioms(out *strings.Builder) {
	var live, fls []*Term
	for _, t := range c.flTerms {
		if t.sent {
			live = append(live, t)
			if t.op == "fl" {
				fls = append(fls, t)
			}
		}
	}
	for _, t := range live {
		r := t.name
		n, seen := c.flAnchored[t.id]
		switch t.op {
		case "fl":
			e := t.args[0].name
			if !seen && !c.noEps {
				eps := smtRat(twoM53)
				fmt.Fprintf(out, "(assert (and (<= (- %s (* %s (rabs %s))) %s) (<= %s (+ %s (* %s (rabs %s))))))\n", e, eps, e, r, r, e, eps, e)
				if t.args[0].intVal {
					b := new(big.Rat).SetInt(two53)
					fmt.Fprintf(out, "(assert (=> (<= (rabs %s) %s) (= %s %s)))\n", e, smtRat(b), r, e)
				}
			}
			for ; n < len(c.anchors); n++ {
				a := smtRat(c.anchors[n])
				fmt.Fprintf(out, "(assert (and (=> (>= %s %s) (>= %s %s)) (=> (<= %s %s) (<= %s %s))))\n", e, a, r, a, e, a, r, a)
			}
			// monotonicity against symbolic representable values
			m := c.flSymAnch[t.id]
			for ; m < len(c.symAnchors); m++ {
				sa := c.symAnchors[m]
				if !sa.sent || sa == t.args[0] {
					break
				}
				a := sa.name
				fmt.Fprintf(out, "(assert (and (=> (>= %s %s) (>= %s %s)) (=> (<= %s %s) (<= %s %s))))\n", e, a, r, a, e, a, r, a)
			}
			c.flSymAnch[t.id] = m
		case "rdiv":
			a, b := t.args[0].name, t.args[1].name
			for ; n < len(c.anchors); n++ {
				k := smtRat(c.anchors[n])
				fmt.Fprintf(out, "(assert (=> (> %s 0.0) (and (= (>= %s %s) (>= %s (* %s %s))) (= (<= %s %s) (<= %s (* %s %s))))))\n", b, r, k, a, k, b, r, k, a, k, b)
				fmt.Fprintf(out, "(assert (=> (< %s 0.0) (and (= (>= %s %s) (<= %s (* %s %s))) (= (<= %s %s) (>= %s (* %s %s))))))\n", b, r, k, a, k, b, r, k, a, k, b)
			}
		case "rmul":
			x, y := t.args[0].name, t.args[1].name
			if !seen {
				fmt.Fprintf(out, "(assert (=> (or (= %s 0.0) (= %s 0.0)) (= %s 0.0)))\n", x, y, r)
				fmt.Fprintf(out, "(assert (=> (= %s 1.0) (= %s %s)))\n(assert (=> (= %s 1.0) (= %s %s)))\n", x, r, y, y, r, x)
				fmt.Fprintf(out, "(assert (=> (and (> %s 0.0) (> %s 0.0)) (> %s 0.0)))\n(assert (=> (and (< %s 0.0) (< %s 0.0)) (> %s 0.0)))\n", x, y, r, x, y, r)
				fmt.Fprintf(out, "(assert (=> (and (> %s 0.0) (< %s 0.0)) (< %s 0.0)))\n(assert (=> (and (< %s 0.0) (> %s 0.0)) (< %s 0.0)))\n", x, y, r, x, y, r)
				fmt.Fprintf(out, "(assert (=> (and (>= %s 0.0) (>= %s 0.0) (<= %s 1.0)) (<= %s %s)))\n", x, y, y, r, x)
				fmt.Fprintf(out, "(assert (=> (and (>= %s 0.0) (>= %s 0.0) (<= %s 1.0)) (<= %s %s)))\n", y, x, x, r, y)
				fmt.Fprintf(out, "(assert (=> (and (>= %s 0.0) (>= %s 1.0)) (>= %s %s)))\n", x, y, r, x)
				fmt.Fprintf(out, "(assert (=> (and (>= %s 0.0) (>= %s 1.0)) (>= %s %s)))\n", y, x, r, y)
			}
			// linear instances against every representable constant k in scope:
			//   x >= 0, y >= k  =>  p >= k*x      x >= 0, y <= k  =>  p <= k*x   (and with x, y swapped)
			for ; n < len(c.anchors); n++ {
				k := smtRat(c.anchors[n])
				fmt.Fprintf(out, "(assert (=> (>= %s 0.0) (and (=> (>= %s %s) (>= %s (* %s %s))) (=> (<= %s %s) (<= %s (* %s %s))))))\n", x, y, k, r, k, x, y, k, r, k, x)
				fmt.Fprintf(out, "(assert (=> (>= %s 0.0) (and (=> (>= %s %s) (>= %s (* %s %s))) (=> (<= %s %s) (<= %s (* %s %s))))))\n", y, x, k, r, k, y, x, k, r, k, y)
			}
		}
		c.flAnchored[t.id] = len(c.anchors)
	}
	if len(fls) <= 48 {
		for i := c.flPairs; i < len(fls); i++ {
			for j := 0; j < i; j++ {
				a, b := fls[i], fls[j]
				fmt.Fprintf(out, "(assert (and (=> (<= %s %s) (<= %s %s)) (=> (<= %s %s) (<= %s %s))))\n",
					a.args[0].name, b.args[0].name, a.name, b.name, b.args[0].name, a.args[0].name, b.name, a.name)
				// a rounded value is itself representable: rounding cannot cross it
				//   e_a <= b => a <= b,  e_a >= b => a >= b   (and with a, b swapped)
				fmt.Fprintf(out, "(assert (and (=> (<= %s %s) (<= %s %s)) (=> (>= %s %s) (>= %s %s))))\n",
					a.args[0].name, b.name, a.name, b.name, a.args[0].name, b.name, a.name, b.name)
				fmt.Fprintf(out, "(assert (and (=> (<= %s %s) (<= %s %s)) (=> (>= %s %s) (>= %s %s))))\n",
					b.args[0].name, a.name, b.name, a.name, b.args[0].name, a.name, b.name, a.name)
			}
		}
		c.flPairs = len(fls)
	}
}

// freshScript renders a self-contained SMT-LIB2 script deciding the conjunction of lits: prelude,
// the definitions of exactly the terms the literals depend on, the float/uninterpreted-function
// axioms of those terms (all anchors, pairwise instances) and the logged global assertions whose
// terms all occur. Used to retry a query the long-lived solver could not decide, in a fresh process
// free of everything accumulated from other paths.
func (c *TermCtx) freshScript(lits []*Term, wantModel []*Term) string {
	var out strings.Builder
	out.WriteString(smtPrelude)
	seen := map[*Term]bool{}
	var order []*Term
	var visit func(t *Term)
	visit = func(t *Term) {
		if seen[t] {
			return
		}
		seen[t] = true
		for _, a := range t.args {
			visit(a)
		}
		order = append(order, t)
	}
	for _, l := range lits {
		visit(l)
	}
	for _, v := range wantModel {
		visit(v)
	}
	// symbolic anchors are referenced by the fl axioms
	for _, sa := range c.symAnchors {
		if sa.sent {
			visit(sa)
		}
	}
	var anchored []*Term
	for _, x := range order {
		switch x.op {
		case "var":
			fmt.Fprintf(&out, "(declare-const %s %s)\n", x.name, x.sort)
			if x.sort == SInt {
				if x.lo != nil {
					fmt.Fprintf(&out, "(assert (>= %s %s))\n", x.name, smtInt(x.lo))
				}
				if x.hi != nil {
					fmt.Fprintf(&out, "(assert (<= %s %s))\n", x.name, smtInt(x.hi))
				}
			}
		case "const":
		default:
			fmt.Fprintf(&out, "(define-fun %s () %s %s)\n", x.name, x.sort, x.expr())
			if x.extra == "reg" {
				anchored = append(anchored, x)
			}
		}
	}
	// instantiate the axioms for the anchored terms of this query only
	sFl, sAnch, sSym, sPairs := c.flTerms, c.flAnchored, c.flSymAnch, c.flPairs
	savedSent := map[*Term]bool{}
	for _, x := range order {
		savedSent[x] = x.sent
		x.sent = true
	}
	c.flTerms, c.flAnchored, c.flSymAnch, c.flPairs = anchored, map[int]int{}, map[int]int{}, 0
	c.flAxioms(&out)
	c.flTerms, c.flAnchored, c.flSymAnch, c.flPairs = sFl, sAnch, sSym, sPairs
	for x, v := range savedSent {
		x.sent = v
	}
	for _, a := range c.axiomLog {
		ok := true
		for _, d := range a.deps {
			if !seen[d] {
				ok = false
			}
		}
		if ok {
			out.WriteString(a.text)
			out.WriteByte('\n')
		}
	}
	for _, l := range lits {
		if l.isCon && l.bval {
			continue
		}
		fmt.Fprintf(&out, "(assert %s)\n", l.name)
	}
	out.WriteString("(check-sat)\n")
	if len(wantModel) > 0 {
		out.WriteString("(get-value (")
		for _, v := range wantModel {
			out.WriteString(v.name)
			out.WriteByte(' ')
		}
		out.WriteString("))\n")
	}
	return out.String()
}
