package main

// Dynamic partial-order reduction (Flanagan & Godefroid 2005) with sleep sets, as a third
// exploration mode (`//verif:entry dpor`). A run records one event per executed transition
// (goroutine, objects touched incl. the channels of the operation it publishes next, read-only
// flag, the goroutines that were offered at that point) with vector clocks; after the run every
// pair of dependent events of different goroutines that is not ordered by happens-before (a race)
// adds ONE alternative at the state before the earlier event: schedule the later event's goroutine
// there (or, if it was not offered there, every goroutine that was). Scheduling decisions therefore
// branch only where a race was observed, not at every point. Nodes are identified by their decision
// prefix; the alternatives already scheduled at a node go to sleep in later alternatives of that
// node (sleep sets). Non-scheduling decisions (select case, data choices, symbolic branches) and
// states in which an environment event (timer) may fire keep full branching.

import (
	"os"
)

type dporEvent struct {
	tracePos int // index of this event's 's' decision in the run's trace
	g        int
	objs     []interface{} // nil: dependent with everything
	readOnly bool
	cand     []int // goroutine ids offered at this point (awake and enabled)
	vc       []int // vector clock after the event
	pre      []int // clock of the goroutine before the event (program order only)
}

type dporState struct {
	events []*dporEvent
	clock  map[int][]int // goroutine -> clock
	last   map[int]*dporEvent
}

func vcJoin(a, b []int) []int {
	if len(b) > len(a) {
		a = append(a, make([]int, len(b)-len(a))...)
	}
	for i, x := range b {
		if x > a[i] {
			a[i] = x
		}
	}
	return a
}

func vcGet(a []int, i int) int {
	if i < len(a) {
		return a[i]
	}
	return 0
}

var dporEnv = os.Getenv("VERIF_DPOR") != "" // probing aid: run every unbounded entry in DPOR mode

func isDPOR(e *HarnessEntry) bool {
	return e != nil && (e.DPOR || (dporEnv && e.Preempt == 0 && !e.GoSync))
}

func (s *Sched) dporOn() bool {
	return isDPOR(s.r.entry) && s.r.w.d.preemptOverride == 0 && !noSleep
}

func objsConflict(a, b *dporEvent) bool {
	if a.objs == nil || b.objs == nil {
		return true
	}
	if a.readOnly && b.readOnly {
		return false
	}
	for _, x := range a.objs {
		for _, y := range b.objs {
			if x == y {
				return true
			}
		}
	}
	return false
}

// dporRecord registers the transition that is about to be executed by `chosen`.
func (s *Sched) dporRecord(chosen *goroutine, cand []*goroutine, tracePos int) {
	st := s.dpor
	if st == nil {
		st = &dporState{clock: map[int][]int{}, last: map[int]*dporEvent{}}
		s.dpor = st
	}
	op := chosen.pending
	ev := &dporEvent{tracePos: tracePos, g: chosen.id, readOnly: op.readOnly}
	switch op.kind {
	case opIdle:
		ev.objs = nil
	default:
		ev.objs = s.effObjs(op)
		if ev.objs == nil {
			// unknown object: dependent with everything
		}
	}
	for _, g := range cand {
		ev.cand = append(ev.cand, g.id)
	}
	pre := append([]int{}, st.clock[chosen.id]...)
	ev.pre = pre
	vc := append([]int{}, pre...)
	for _, e := range st.events {
		if e.g != ev.g && objsConflict(e, ev) {
			vc = vcJoin(vc, e.vc)
		}
	}
	for len(vc) <= chosen.id {
		vc = append(vc, 0)
	}
	vc[chosen.id]++
	ev.vc = vc
	st.clock[chosen.id] = append([]int{}, vc...)
	st.events = append(st.events, ev)
	st.last[chosen.id] = ev
}

// dporPublish: the goroutine that executed its last event now parks on / announces op; the channels
// of op belong to that event (announcing an operation changes what parked selects of others can do).
func (s *Sched) dporPublish(g *goroutine, op *pendingOp) {
	if s.dpor == nil {
		return
	}
	ev := s.dpor.last[g.id]
	if ev == nil || ev.objs == nil {
		return
	}
	extra := opObjs(op)
	if op.kind == opStart {
		return
	}
	if extra == nil {
		ev.objs = nil
	} else if len(extra) > 0 {
		ev.objs = append(ev.objs, extra...)
		if op.kind != opSelect || !onlyReceives(op) {
			ev.readOnly = false
		} else {
			ev.readOnly = false // announcing even a receive enables parked senders
		}
	}
	// re-join clocks for the widened object set
	st := s.dpor
	vc := ev.vc
	for _, e := range st.events {
		if e != ev && e.g != ev.g && objsConflict(e, ev) && vcGet(e.vc, e.g) <= vcGet(vc, e.g) {
			continue
		} else if e != ev && e.g != ev.g && objsConflict(e, ev) {
			vc = vcJoin(vc, e.vc)
		}
	}
	ev.vc = vc
	st.clock[g.id] = append([]int{}, vc...)
}

func onlyReceives(op *pendingOp) bool {
	for i := range op.cases {
		if op.cases[i].send {
			return false
		}
	}
	return true
}

// dporSpawn: a new goroutine starts with its parent's clock.
func (s *Sched) dporSpawn(parent, child *goroutine) {
	if s.dpor == nil || parent == nil {
		return
	}
	s.dpor.clock[child.id] = append([]int{}, s.dpor.clock[parent.id]...)
}

// ---------- driver side

type dporNode struct {
	done []int // goroutine ids already scheduled (explored or queued) at this node
}

// nodeKey identifies a node by a 128-bit hash of its decision prefix (two independent FNV-1a
// streams): the prefixes themselves would cost O(runs x depth) memory.
type nodeID [2]uint64

func nodeKey(tr []Decision) nodeID {
	h1, h2 := uint64(14695981039346656037), uint64(1099511628211*31+7)
	mix := func(b uint64) {
		h1 ^= b
		h1 *= 1099511628211
		h2 ^= b + 0x9e3779b97f4a7c15
		h2 *= 0x100000001b3 + 0x20
		h2 = h2<<13 | h2>>51
	}
	for _, d := range tr {
		mix(uint64(d.K))
		mix(uint64(int64(d.C)))
		if d.K == 'v' {
			for i := 0; i < len(d.V); i++ {
				mix(uint64(d.V[i]))
			}
		}
		mix(0xff)
	}
	return nodeID{h1, h2}
}

// dporRegisterFirst notes the goroutine a run scheduled by default at a fresh node.
func (d *Driver) dporRegister(prefix []Decision, gid int) {
	k := nodeKey(prefix)
	n := d.dporNodes[k]
	if n == nil {
		n = &dporNode{}
		d.dporNodes[k] = n
	}
	for _, x := range n.done {
		if x == gid {
			return
		}
	}
	n.done = append(n.done, gid)
}

// dporBacktracks analyses the races of a finished run and returns the new alternatives.
// Caller holds d.mu.
func (d *Driver) dporBacktracks(r *Run) [][]Decision {
	st := r.sched.dpor
	if st == nil {
		return nil
	}
	if d.dporNodes == nil {
		d.dporNodes = map[nodeID]*dporNode{}
	}
	evs := st.events
	// every event's default choice is registered at its node
	for _, e := range evs {
		if e.tracePos < len(r.trace) {
			d.dporRegister(r.trace[:e.tracePos], e.g)
		}
	}
	var out [][]Decision
	for j, ej := range evs {
		// the last earlier event of another goroutine that conflicts with ej and does not happen before
		// ej's goroutine's previous state
		for i := j - 1; i >= 0; i-- {
			ei := evs[i]
			if ei.g == ej.g || !objsConflict(ei, ej) {
				continue
			}
			if vcGet(ei.vc, ei.g) <= vcGet(ej.pre, ei.g) {
				continue // ordered by happens-before independently of this pair
			}
			if ei.tracePos >= len(r.trace) || len(ei.cand) < 2 {
				break // no alternative existed at that state
			}
			// candidates: ej's goroutine, or a goroutine with an event in (i, j) that happens before ej
			var pick []int
			inCand := func(g int) bool {
				for _, c := range ei.cand {
					if c == g {
						return true
					}
				}
				return false
			}
			if inCand(ej.g) {
				pick = []int{ej.g}
			} else {
				for k := i + 1; k < j && len(pick) == 0; k++ {
					ek := evs[k]
					if ek.g != ei.g && inCand(ek.g) && vcGet(ek.vc, ek.g) <= vcGet(ej.vc, ek.g) {
						pick = []int{ek.g}
					}
				}
			}
			if len(pick) == 0 {
				for _, c := range ei.cand {
					if c != ei.g {
						pick = append(pick, c)
					}
				}
			}
			prefix := r.trace[:ei.tracePos]
			key := nodeKey(prefix)
			n := d.dporNodes[key]
			if n == nil {
				n = &dporNode{}
				d.dporNodes[key] = n
			}
			for _, q := range pick {
				dup := false
				for _, x := range n.done {
					if x == q {
						dup = true
					}
				}
				if dup {
					continue
				}
				alt := make([]Decision, len(prefix), len(prefix)+1)
				copy(alt, prefix)
				alt = append(alt, Decision{K: 's', C: q, N: len(ei.cand), S: append([]int{}, n.done...), G: true})
				n.done = append(n.done, q)
				out = append(out, alt)
			}
			break
		}
	}
	return out
}
