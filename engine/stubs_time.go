package main

// Virtual time, timers, randomness and small context helpers.

import (
	"fmt"
	"go/types"
	"math/big"

)

const unixToInternal int64 = (1969*365 + 1969/4 - 1969/100 + 1969/400) * 86400

// timeValue builds the time.Time for the virtual instant ns (Unix nanoseconds, >= 0).
func (r *Run) timeValue(ns value) value {
	sec := binop(r, tokenQUO, nil, ns, int64(1e9))
	nsec := binop(r, tokenREM, nil, ns, int64(1e9))
	wall := conv(r, types.Typ[types.Uint64], types.Typ[types.Int64], nsec)
	ext := binop(r, tokenADD, nil, sec, unixToInternal)
	return structure{wall, ext, (*value)(nil)}
}

type engineTimer struct {
	t      *timer
	ch     *channel
	period value // tickers
	ticks  int
	fn     value
}

const maxTicksPerTicker = 2

func (s *Sched) timerFor(p *value) *engineTimer {
	et, _ := s.objs[p].(*engineTimer)
	return et
}

func (s *Sched) sendTime(ch *channel, when value) {
	if len(ch.buf) < ch.capacity {
		ch.buf = append(ch.buf, s.r.timeValue(when))
	} else if p, i := s.parkedPeer(nil, ch, false); p != nil && len(ch.buf) == 0 {
		p.completed, p.chosen, p.recv, p.recvOK = true, i, s.r.timeValue(when), true
	}
}

func (s *Sched) deliverTime(ch *channel, when value) {
	// a parked receiver takes the value directly, otherwise buffer it (capacity 1), else drop
	if len(ch.buf) == 0 {
		if p, i := s.parkedPeer(nil, ch, false); p != nil {
			p.completed, p.chosen, p.recv, p.recvOK = true, i, s.r.timeValue(when), true
			return
		}
	}
	if len(ch.buf) < ch.capacity {
		ch.buf = append(ch.buf, s.r.timeValue(when))
	}
}

func timeChanType(fr *frame) types.Type {
	return fr.i.prog.ImportedPackage("time").Type("Time").Type()
}

func (r *Run) newTimerObj(fr *frame, d value, desc string) (*value, *engineTimer) {
	s := r.sched
	ch := s.newChan(1, timeChanType(fr), desc)
	et := &engineTimer{ch: ch}
	var cell value = structure{ch, true}
	p := &cell
	when := binop(r, tokenADD, nil, r.now, d)
	et.t = s.addTimer(when, desc, func() { s.deliverTime(ch, when) })
	s.objs[p] = et
	return p, et
}

func init() {
	reg("time.Now", func(fr *frame, a []value) value {
		r := fr.i.run
		return r.timeValue(r.now)
	})
	reg("(time.Time).Format", func(fr *frame, a []value) value { return "<time>" })
	reg("(time.Time).String", func(fr *frame, a []value) value { return "<time>" })
	reg("(time.Duration).String", func(fr *frame, a []value) value { return "<duration>" })
	reg("time.runtimeNano", func(fr *frame, a []value) value { return fr.i.run.now })
	reg("github.com/zeromicro/go-zero/core/timex.Now", func(fr *frame, a []value) value {
		return fr.i.run.now
	})
	reg("github.com/zeromicro/go-zero/core/timex.Since", func(fr *frame, a []value) value {
		r := fr.i.run
		return binop(r, tokenSUB, nil, r.now, a[0])
	})
	reg("time.Sleep", func(fr *frame, a []value) value {
		r := fr.i.run
		s := r.sched
		if len(s.gs) == 1 {
			// sequential harness: sleeping is a clock advance
			if r.truth(binop(r, tokenLSS, nil, int64(0), a[0])) {
				r.now = binop(r, tokenADD, nil, r.now, a[0])
			}
			return nil
		}
		fired := false
		when := binop(r, tokenADD, nil, r.now, a[0])
		s.addTimer(when, "Sleep", func() { fired = true })
		s.yieldPred(fr, "time.Sleep", nil, func() bool { return fired })
		return nil
	})
	reg("time.NewTimer", func(fr *frame, a []value) value {
		p, _ := fr.i.run.newTimerObj(fr, a[0], "Timer@"+fr.caller.pos())
		return p
	})
	reg("time.After", func(fr *frame, a []value) value {
		_, et := fr.i.run.newTimerObj(fr, a[0], "After@"+fr.caller.pos())
		return et.ch
	})
	reg("time.AfterFunc", func(fr *frame, a []value) value {
		r := fr.i.run
		s := r.sched
		var cell value = structure{(*channel)(nil), true}
		p := &cell
		et := &engineTimer{fn: a[1]}
		when := binop(r, tokenADD, nil, r.now, a[0])
		i := fr.i
		et.t = s.addTimer(when, "AfterFunc@"+fr.caller.pos(), func() {
			s.spawnNative(i, "AfterFunc", et.fn, nil)
		})
		s.objs[p] = et
		return p
	})
	reg("(*time.Timer).Stop", func(fr *frame, a []value) value {
		s := fr.i.run.sched
		et := s.timerFor(argPtr(a[0]))
		if et == nil {
			panic(unsupported{"Stop on a Timer not created by NewTimer/AfterFunc"})
		}
		was := et.t.armed
		et.t.armed = false
		return was
	})
	reg("(*time.Timer).Reset", func(fr *frame, a []value) value {
		r := fr.i.run
		s := r.sched
		et := s.timerFor(argPtr(a[0]))
		if et == nil {
			panic(unsupported{"Reset on a Timer not created by NewTimer/AfterFunc"})
		}
		was := et.t.armed
		et.t.armed = false
		when := binop(r, tokenADD, nil, r.now, a[1])
		if et.fn != nil {
			i := fr.i
			et.t = s.addTimer(when, "AfterFunc(reset)", func() { s.spawnNative(i, "AfterFunc", et.fn, nil) })
		} else {
			ch := et.ch
			et.t = s.addTimer(when, "Timer(reset)", func() { s.deliverTime(ch, when) })
		}
		return was
	})
	reg("time.NewTicker", func(fr *frame, a []value) value {
		r := fr.i.run
		s := r.sched
		if !r.truth(binop(r, tokenLSS, nil, int64(0), a[0])) {
			panic(targetPanic{v: iface{t: types.Typ[types.String], v: "non-positive interval for NewTicker"}})
		}
		ch := s.newChan(1, timeChanType(fr), "Ticker@"+fr.caller.pos())
		var cell value = structure{ch, true}
		p := &cell
		et := &engineTimer{ch: ch, period: a[0]}
		var arm func(when value)
		arm = func(when value) {
			et.t = s.addTimer(when, "Ticker", func() {
				s.deliverTime(ch, when)
				et.ticks++
				if et.ticks < maxTicksPerTicker {
					arm(binop(r, tokenADD, nil, when, et.period))
				} else {
					r.notes = append(r.notes, fmt.Sprintf("ticker bound: at most %d ticks per time.Ticker are explored", maxTicksPerTicker))
				}
			})
		}
		arm(binop(r, tokenADD, nil, r.now, a[0]))
		s.objs[p] = et
		return p
	})
	reg("(*time.Ticker).Stop", func(fr *frame, a []value) value {
		s := fr.i.run.sched
		if et := s.timerFor(argPtr(a[0])); et != nil {
			et.t.armed = false
			et.ticks = maxTicksPerTicker
		}
		return nil
	})
	reg("(*time.Ticker).Reset", func(fr *frame, a []value) value {
		panic(unsupported{"Ticker.Reset"})
	})

	// ---- math/rand: arbitrary values of the documented range
	randFloat := func(fr *frame, a []value) value {
		r := fr.i.run
		t := r.newNondet("rand.Float64", SReal, nil, nil)
		if !t.isCon {
			tc := r.tc
			r.addPC(tc.Le(tc.Real(big.NewRat(0, 1)), t))
			r.addPC(tc.Lt(t, tc.Real(big.NewRat(1, 1))))
			r.addPC(tc.Eq(tc.Fl(t), t))
		}
		return r.mkSymFloat(t)
	}
	randIntn := func(kind types.BasicKind, argIdx int) stubFn {
		return func(fr *frame, a []value) value {
			r := fr.i.run
			n := a[argIdx]
			if !r.truth(binop(r, tokenLSS, nil, conv(r, types.Typ[types.Int64], types.Typ[kind], 0), conv(r, types.Typ[types.Int64], types.Typ[kind], n))) {
				panic(targetPanic{v: iface{t: types.Typ[types.String], v: "invalid argument to Intn"}})
			}
			hi := r.concreteInt(n)
			t := r.newNondet("rand.Intn", SInt, big.NewInt(0), big.NewInt(hi-1))
			return r.mkSymInt(t, kind)
		}
	}
	randInt63 := func(fr *frame, a []value) value {
		r := fr.i.run
		_, hi := typeRange(64, true)
		return r.mkSymInt(r.newNondet("rand.Int63", SInt, big.NewInt(0), hi), types.Int64)
	}
	reg("math/rand.NewSource", func(fr *frame, a []value) value { return iface{} })
	reg("math/rand.Seed", func(fr *frame, a []value) value { return nil })
	reg("(*math/rand.Rand).Seed", func(fr *frame, a []value) value { return nil })
	reg("math/rand.Float64", randFloat)
	reg("(*math/rand.Rand).Float64", randFloat)
	reg("math/rand.Intn", randIntn(types.Int, 0))
	reg("(*math/rand.Rand).Intn", randIntn(types.Int, 1))
	reg("math/rand.Int63n", randIntn(types.Int64, 0))
	reg("(*math/rand.Rand).Int63n", randIntn(types.Int64, 1))
	reg("math/rand.Int31n", randIntn(types.Int32, 0))
	reg("(*math/rand.Rand).Int31n", randIntn(types.Int32, 1))
	reg("math/rand.Int63", randInt63)
	reg("(*math/rand.Rand).Int63", randInt63)
	reg("math/rand.Int", func(fr *frame, a []value) value {
		return conv(fr.i.run, types.Typ[types.Int], types.Typ[types.Int64], randInt63(fr, a))
	})
	reg("(*math/rand.Rand).Int", func(fr *frame, a []value) value {
		return conv(fr.i.run, types.Typ[types.Int], types.Typ[types.Int64], randInt63(fr, a))
	})
	shuffle := func(argBase int) stubFn {
		return func(fr *frame, a []value) value {
			// Fisher-Yates with arbitrary draws: every permutation reachable
			r := fr.i.run
			n := int(r.concreteInt(a[argBase]))
			for i := n - 1; i > 0; i-- {
				t := r.newNondet("rand.Shuffle", SInt, big.NewInt(0), big.NewInt(int64(i)))
				j := int(r.concretize(t).Int64())
				call(fr.i, fr, 0, a[argBase+1], []value{i, j})
			}
			return nil
		}
	}
	reg("math/rand.Shuffle", shuffle(0))
	reg("(*math/rand.Rand).Shuffle", shuffle(1))

	// ---- context helpers (the package itself is interpreted from source)
	reg("context.WithValue", func(fr *frame, a []value) value {
		r := fr.i.run
		parent := a[0].(iface)
		if parent.t == nil {
			panic(targetPanic{v: iface{t: types.Typ[types.String], v: "cannot create context from nil parent"}})
		}
		key := a[1].(iface)
		if key.t == nil {
			panic(targetPanic{v: iface{t: types.Typ[types.String], v: "nil key"}})
		}
		if !types.Comparable(key.t) {
			panic(targetPanic{v: iface{t: types.Typ[types.String], v: "key is not comparable"}})
		}
		pkg := r.interp.prog.ImportedPackage("context")
		t := pkg.Type("valueCtx").Type()
		var cell value = structure{parent, key, a[2]}
		return iface{t: types.NewPointer(t), v: &cell}
	})
	reg("context.contextName", func(fr *frame, a []value) value { return "ctx" })
	reg("internal/reflectlite.TypeOf", func(fr *frame, a []value) value {
		panic(unsupported{"reflectlite.TypeOf"})
	})
}


// spawnNative starts an interpreted goroutine running fn(args) from engine code (timer callbacks).
func (s *Sched) spawnNative(i *interpreter, name string, fn value, args []value) {
	g := s.newGoroutine(fmt.Sprintf("g%d(%s)", len(s.gs), name))
	s.seq++
	g.pending = &pendingOp{kind: opStart, g: g, seq: s.seq}
	s.hostWG.Add(1)
	go func() {
		defer s.hostWG.Done()
		<-g.wake
		if s.killed {
			return
		}
		g.pending = nil
		g.started = true
		s.runGoroutine(g, false, func() {
			root := &frame{i: i, g: g}
			call(i, root, 0, fn, args)
		})
	}()
}

