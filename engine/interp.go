// Derived from golang.org/x/tools/go/ssa/interp (Copyright 2013 The Go Authors, BSD-style
// licence in LICENSE.xtools) and extended with symbolic values, a decision-vector driven
// scheduler and an SMT back end.

package main

import (
	"fmt"
	"go/token"
	"go/types"
	"os"
	"runtime"
	"slices"
	"strings"

	"golang.org/x/tools/go/ssa"
)

type continuation int

const (
	kNext continuation = iota
	kReturn
	kJump
)

type methodSet map[string]*ssa.Function

// State of one run (one decision vector).
type interpreter struct {
	run                *Run
	prog               *ssa.Program
	globals            map[*ssa.Global]*value
	pkgInit            map[*ssa.Package]int
	runtimeErrorString types.Type
	sizes              types.Sizes
	tracing            bool
}

type deferred struct {
	fn    value
	args  []value
	instr *ssa.Defer
	tail  *deferred
}

type frame struct {
	i                *interpreter
	g                *goroutine
	caller           *frame
	fn               *ssa.Function
	block, prevBlock *ssa.BasicBlock
	env              map[ssa.Value]value
	locals           []value
	defers           *deferred
	result           value
	panicking        bool
	panic            interface{}
	phitemps         []value
	depth            int
	tolerant         bool // package-initialiser mode: failing instructions yield poison
	curInstr         ssa.Instruction
}

// poison marks a value the engine could not compute (only produced while running package
// initialisers); any use aborts the run as unsupported.
type poison struct{ why string }

// targetPanic is a panic of the interpreted program.
type targetPanic struct {
	v       value
	runtime bool
	where   string
	logged  bool
}

var debugPanics = os.Getenv("VERIF_DEBUG_PANICS") != ""

type killedPanic struct{}

func (r *Run) runtimePanic(msg string) targetPanic {
	return targetPanic{v: iface{t: r.interp.runtimeErrorString, v: msg}, runtime: true}
}

func deref(t types.Type) types.Type {
	if p, ok := t.Underlying().(*types.Pointer); ok {
		return p.Elem()
	}
	panic(fmt.Sprintf("deref: not a pointer type: %s", t))
}

func (fr *frame) get(key ssa.Value) value {
	switch key := key.(type) {
	case nil:
		return nil
	case *ssa.Function, *ssa.Builtin:
		return key
	case *ssa.Const:
		return constValue(key)
	case *ssa.Global:
		return fr.i.globalAddr(key)
	}
	if r, ok := fr.env[key]; ok {
		return r
	}
	panic(fmt.Sprintf("get: no value for %T: %v", key, key.Name()))
}

func isStdPkg(p *ssa.Package) bool {
	path := p.Pkg.Path()
	first := path
	if i := strings.IndexByte(path, '/'); i >= 0 {
		first = path[:i]
	}
	return !strings.Contains(first, ".")
}

// globalAddr returns the cell of a package-level variable, initialising its package lazily.
func (i *interpreter) globalAddr(g *ssa.Global) *value {
	if g.Pkg != nil && isStdPkg(g.Pkg) {
		w := i.run.w
		if c, ok := w.stdGlobals[g]; ok {
			return c
		}
		w.allocGlobals(g.Pkg, w.stdGlobals)
		i.initPackage(g.Pkg)
		return w.stdGlobals[g]
	}
	if c, ok := i.globals[g]; ok {
		if i.pkgInit[g.Pkg] == 0 {
			i.initPackage(g.Pkg)
		}
		return c
	}
	i.run.w.allocGlobals(g.Pkg, i.globals)
	i.initPackage(g.Pkg)
	return i.globals[g]
}

func (w *Worker) allocGlobals(pkg *ssa.Package, into map[*ssa.Global]*value) {
	for _, m := range pkg.Members {
		if v, ok := m.(*ssa.Global); ok {
			if _, ok := into[v]; !ok {
				cell := zero(deref(v.Type()))
				if txt, ok := embedVars[pkg.Pkg.Path()+"."+v.Name()]; ok {
					cell = txt
				}
				into[v] = &cell
			}
		}
	}
}

// initPackage runs pkg's synthetic init function in tolerant mode (DESIGN 2.5): calls to other
// packages' init are skipped (they are initialised on demand), an instruction the engine cannot
// execute poisons its result instead of aborting the run.
func (i *interpreter) initPackage(pkg *ssa.Package) {
	if i.pkgInit[pkg] != 0 {
		return
	}
	std := isStdPkg(pkg)
	if std {
		if i.run.w.stdInit[pkg] {
			i.pkgInit[pkg] = 2
			return
		}
		i.run.w.stdInit[pkg] = true
	}
	i.pkgInit[pkg] = 1
	fn := pkg.Func("init")
	if fn == nil || fn.Blocks == nil {
		i.pkgInit[pkg] = 2
		return
	}
	if noInitPkgs[pkg.Pkg.Path()] {
		i.pkgInit[pkg] = 2
		return
	}
	// mark guard so the body executes
	if g, ok := pkg.Members["init$guard"].(*ssa.Global); ok {
		var cell *value
		if std {
			cell = i.run.w.stdGlobals[g]
		} else {
			cell = i.globals[g]
		}
		if cell != nil {
			*cell = false
		}
	}
	fr := &frame{i: i, fn: fn, tolerant: true, g: i.run.sched.cur}
	// initialisers run at the (concrete) start-of-run instant, whatever the harness has set since
	savedNow := i.run.now
	i.run.now = initialNow
	defer func() { i.run.now = savedNow }()
	saved := i.run.steps
	i.run.sched.inInit++
	defer func() { i.run.sched.inInit-- }()
	func() {
		defer func() {
			if p := recover(); p != nil {
				switch p.(type) {
				case killedPanic, runAbort:
					panic(p)
				}
				// a failing initialiser leaves the remaining globals poisoned-by-zero; record it
				i.run.notes = append(i.run.notes, fmt.Sprintf("init of %s stopped early: %v", pkg.Pkg.Path(), p))
			}
		}()
		runFunction(fr, nil, nil)
	}()
	_ = saved
	i.pkgInit[pkg] = 2
}

// packages whose initialisers are irrelevant to every harness and expensive or impossible to run
var noInitPkgs = map[string]bool{
	"runtime": true, "os": true, "syscall": true, "internal/poll": true, "net": true,
	"crypto/tls": true, "crypto/x509": true, "reflect": true, "testing": true,
	"internal/godebug": true, "log": true, "os/signal": true,
}

func (fr *frame) runDefer(d *deferred) {
	var ok bool
	defer func() {
		if !ok {
			p := recover()
			if _, isT := p.(targetPanic); !isT {
				panic(p) // engine-level abort: propagate
			}
			fr.panicking = true
			fr.panic = p
		}
	}()
	call(fr.i, fr, d.instr.Pos(), d.fn, d.args)
	ok = true
}

func (fr *frame) runDefers() {
	for d := fr.defers; d != nil; d = d.tail {
		fr.runDefer(d)
	}
	fr.defers = nil
	if fr.panicking {
		panic(fr.panic)
	}
}

func lookupMethod(i *interpreter, typ types.Type, meth *types.Func) *ssa.Function {
	return i.prog.LookupMethod(typ, meth.Pkg(), meth.Name())
}

func (fr *frame) pos() string {
	if fr == nil || fr.curInstr == nil {
		return ""
	}
	p := fr.curInstr.Pos()
	f := fr
	for p == token.NoPos && f.caller != nil {
		f = f.caller
		if f.curInstr != nil {
			p = f.curInstr.Pos()
		}
	}
	return fr.i.prog.Fset.Position(p).String()
}

func (fr *frame) stack() string {
	var sb strings.Builder
	for f := fr; f != nil && f.fn != nil; f = f.caller {
		p := ""
		if f.curInstr != nil {
			p = fr.i.prog.Fset.Position(f.curInstr.Pos()).String()
		}
		fmt.Fprintf(&sb, "  %s %s\n", f.fn.String(), p)
	}
	return sb.String()
}

func visitInstr(fr *frame, instr ssa.Instruction) continuation {
	r := fr.i.run
	switch instr := instr.(type) {
	case *ssa.DebugRef:

	case *ssa.UnOp:
		fr.env[instr] = unop(fr, instr, fr.get(instr.X))

	case *ssa.BinOp:
		fr.env[instr] = binop(r, instr.Op, instr.X.Type(), fr.get(instr.X), fr.get(instr.Y))

	case *ssa.Call:
		fn, args := prepareCall(fr, &instr.Call)
		fr.env[instr] = call(fr.i, fr, instr.Pos(), fn, args)

	case *ssa.ChangeInterface:
		fr.env[instr] = fr.get(instr.X)

	case *ssa.ChangeType:
		fr.env[instr] = fr.get(instr.X)

	case *ssa.Convert:
		fr.env[instr] = conv(r, instr.Type(), instr.X.Type(), fr.get(instr.X))

	case *ssa.MultiConvert:
		fr.env[instr] = conv(r, instr.Type(), instr.X.Type(), fr.get(instr.X))

	case *ssa.SliceToArrayPointer:
		fr.env[instr] = sliceToArrayPointer(instr.Type(), instr.X.Type(), fr.get(instr.X))

	case *ssa.MakeInterface:
		fr.env[instr] = iface{t: instr.X.Type(), v: fr.get(instr.X)}

	case *ssa.Extract:
		fr.env[instr] = fr.get(instr.Tuple).(tuple)[instr.Index]

	case *ssa.Slice:
		fr.env[instr] = slice(r, fr.get(instr.X), fr.get(instr.Low), fr.get(instr.High), fr.get(instr.Max))

	case *ssa.Return:
		switch len(instr.Results) {
		case 0:
		case 1:
			fr.result = fr.get(instr.Results[0])
		default:
			var res []value
			for _, r := range instr.Results {
				res = append(res, fr.get(r))
			}
			fr.result = tuple(res)
		}
		fr.block = nil
		return kReturn

	case *ssa.RunDefers:
		fr.runDefers()

	case *ssa.Panic:
		panic(targetPanic{v: fr.get(instr.X), where: fr.pos()})

	case *ssa.Send:
		r.sched.chanSend(fr, fr.get(instr.Chan).(*channel), fr.get(instr.X))

	case *ssa.Store:
		addr := fr.get(instr.Addr).(*value)
		if addr == nil {
			panic(r.runtimePanic("invalid memory address or nil pointer dereference"))
		}
		store(deref(instr.Addr.Type()), addr, fr.get(instr.Val))

	case *ssa.If:
		succ := 1
		var b bool
		switch c := fr.get(instr.Cond).(type) {
		case bool:
			b = c
		case symBool:
			b = r.branch(c.t)
		default:
			panic(fmt.Sprintf("If on %T", c))
		}
		if b {
			succ = 0
		}
		fr.prevBlock, fr.block = fr.block, fr.block.Succs[succ]
		return kJump

	case *ssa.Jump:
		fr.prevBlock, fr.block = fr.block, fr.block.Succs[0]
		return kJump

	case *ssa.Defer:
		fn, args := prepareCall(fr, &instr.Call)
		defers := &fr.defers
		if instr.DeferStack != nil {
			if into := fr.get(instr.DeferStack); into != nil {
				defers = into.(**deferred)
			}
		}
		*defers = &deferred{fn: fn, args: args, instr: instr, tail: *defers}

	case *ssa.Go:
		fn, args := prepareCall(fr, &instr.Call)
		r.sched.spawn(fr, instr, fn, args)

	case *ssa.MakeChan:
		n := r.concreteInt(fr.get(instr.Size))
		fr.env[instr] = r.sched.newChan(int(n), instr.Type().Underlying().(*types.Chan).Elem(), fr.pos())

	case *ssa.Alloc:
		var addr *value
		if instr.Heap {
			addr = new(value)
			fr.env[instr] = addr
		} else {
			addr = fr.env[instr].(*value)
		}
		*addr = zero(deref(instr.Type()))

	case *ssa.MakeSlice:
		n := r.concreteInt(fr.get(instr.Cap))
		l := r.concreteInt(fr.get(instr.Len))
		if n < 0 || l < 0 || l > n || n > 1<<24 {
			panic(r.runtimePanic("makeslice: len out of range"))
		}
		slice := make([]value, n)
		tElt := instr.Type().Underlying().(*types.Slice).Elem()
		for i := range slice {
			slice[i] = zero(tElt)
		}
		fr.env[instr] = slice[:l]

	case *ssa.MakeMap:
		fr.env[instr] = makeMap(instr.Type().Underlying().(*types.Map).Key())

	case *ssa.Range:
		fr.env[instr] = rangeIter(r, fr.get(instr.X), instr.X.Type())

	case *ssa.Next:
		fr.env[instr] = fr.get(instr.Iter).(iter).next()

	case *ssa.FieldAddr:
		p := fr.get(instr.X).(*value)
		if p == nil {
			panic(r.runtimePanic("invalid memory address or nil pointer dereference"))
		}
		fr.env[instr] = &(*p).(structure)[instr.Field]

	case *ssa.Field:
		fr.env[instr] = fr.get(instr.X).(structure)[instr.Field]

	case *ssa.IndexAddr:
		x := fr.get(instr.X)
		switch x := x.(type) {
		case []value:
			idx := r.indexIn(fr.get(instr.Index), len(x))
			fr.env[instr] = &x[idx]
		case *value: // *array
			if x == nil {
				panic(r.runtimePanic("invalid memory address or nil pointer dereference"))
			}
			a := (*x).(array)
			idx := r.indexIn(fr.get(instr.Index), len(a))
			fr.env[instr] = &a[idx]
		default:
			panic(fmt.Sprintf("unexpected x type in IndexAddr: %T", x))
		}

	case *ssa.Index:
		x := fr.get(instr.X)
		switch x := x.(type) {
		case array:
			fr.env[instr] = r.indexRead([]value(x), fr.get(instr.Index))
		case string:
			idx := r.indexIn(fr.get(instr.Index), len(x))
			fr.env[instr] = x[idx]
		case symBytesStr:
			fr.env[instr] = r.indexRead(x.b, fr.get(instr.Index))
		default:
			panic(fmt.Sprintf("unexpected x type in Index: %T", x))
		}

	case *ssa.Lookup:
		fr.env[instr] = lookup(r, instr, fr.get(instr.X), fr.get(instr.Index))

	case *ssa.MapUpdate:
		m := fr.get(instr.Map).(*gmap)
		if m == nil {
			panic(r.runtimePanic("assignment to entry in nil map"))
		}
		m.insert(r, fr.get(instr.Key), fr.get(instr.Value))

	case *ssa.TypeAssert:
		fr.env[instr] = typeAssert(fr.i, instr, fr.get(instr.X).(iface))

	case *ssa.MakeClosure:
		var bindings []value
		for _, binding := range instr.Bindings {
			bindings = append(bindings, fr.get(binding))
		}
		fr.env[instr] = &closure{instr.Fn.(*ssa.Function), bindings}

	case *ssa.Phi:
		panic("unreachable: phi")

	case *ssa.Select:
		fr.env[instr] = r.sched.doSelect(fr, instr)

	default:
		panic(fmt.Sprintf("unexpected instruction: %T", instr))
	}
	return kNext
}

func prepareCall(fr *frame, call *ssa.CallCommon) (fn value, args []value) {
	v := fr.get(call.Value)
	if call.Method == nil {
		fn = v
	} else {
		recv := v.(iface)
		if recv.t == nil {
			if call.Method.Pkg() != nil && isZeroPkgPath(call.Method.Pkg().Path()) {
				// objects of logging/metrics/tracing packages are never created (their constructors are
				// no-op stubs), so methods invoked through their interfaces are no-ops as well
				res := call.Signature().Results()
				name := call.Method.FullName()
				w := fr.i.run.w
				return &nativeFunc{name: name, f: func(fr *frame, args []value) value {
					w.noteStub(name + " (no-op on absent object)")
					if res.Len() == 0 {
						return nil
					}
					return zero(res)
				}}, nil
			}
			panic(fr.i.run.runtimePanic("invalid memory address or nil pointer dereference (method on nil interface)"))
		}
		if f := lookupMethod(fr.i, recv.t, call.Method); f == nil {
			panic(fmt.Sprintf("method set for dynamic type %v does not contain %s", recv.t, call.Method))
		} else {
			fn = f
		}
		args = append(args, recv.v)
	}
	for _, arg := range call.Args {
		args = append(args, fr.get(arg))
	}
	return
}

func call(i *interpreter, caller *frame, callpos token.Pos, fn value, args []value) value {
	switch fn := fn.(type) {
	case *ssa.Function:
		if fn == nil {
			panic(i.run.runtimePanic("invalid memory address or nil pointer dereference (nil func)"))
		}
		return callSSA(i, caller, callpos, fn, args, nil)
	case *closure:
		return callSSA(i, caller, callpos, fn.Fn, args, fn.Env)
	case *ssa.Builtin:
		return callBuiltin(caller, callpos, fn, args)
	case *nativeFunc:
		return fn.f(caller, args)
	}
	panic(fmt.Sprintf("cannot call %T", fn))
}

// nativeFunc is a function value implemented by the engine (e.g. context.CancelFunc).
type nativeFunc struct {
	name string
	f    func(fr *frame, args []value) value
}

const maxDepth = 400

const initialNow = int64(1700000000) * 1e9

func callSSA(i *interpreter, caller *frame, callpos token.Pos, fn *ssa.Function, args []value, env []value) value {
	fr := &frame{i: i, caller: caller, fn: fn}
	if caller != nil {
		fr.g = caller.g
		fr.depth = caller.depth + 1
		if fr.depth > maxDepth {
			panic(unsupported{"call depth limit exceeded in " + fn.String()})
		}
	}
	if st := i.run.w.lookupStub(fn); st != nil {
		if i.tracing {
			fmt.Fprintf(os.Stderr, "%*sstub %s\n", fr.depth, "", fn)
		}
		return st(fr, args)
	}
	if fn.Blocks == nil {
		if fn.Synthetic != "" && strings.Contains(fn.Synthetic, "instantiation") {
			panic(unsupported{"uninstantiated generic " + fn.String()})
		}
		panic(unsupported{"no code for function (add a stub): " + fn.String()})
	}
	if fn.TypeParams().Len() > 0 && len(fn.TypeArgs()) == 0 {
		panic(unsupported{"generic function body without instantiation: " + fn.String()})
	}
	if caller != nil && caller.tolerant && fn.Name() == "init" && fn.Pkg != nil && fn == fn.Pkg.Func("init") {
		return nil // dependency initialisers run on demand
	}
	if i.tracing {
		fmt.Fprintf(os.Stderr, "%*scall %s\n", fr.depth, "", fn)
	}
	i.run.w.noteFunc(fn)
	return runFunction(fr, args, env)
}

func runFunction(fr *frame, args []value, env []value) value {
	fn := fr.fn
	fr.env = make(map[ssa.Value]value, 16)
	fr.block = fn.Blocks[0]
	fr.locals = make([]value, len(fn.Locals))
	for i, l := range fn.Locals {
		fr.locals[i] = zero(deref(l.Type()))
		fr.env[l] = &fr.locals[i]
	}
	for i, p := range fn.Params {
		fr.env[p] = args[i]
	}
	for i, fv := range fn.FreeVars {
		fr.env[fv] = env[i]
	}
	for fr.block != nil {
		runFrame(fr)
	}
	return fr.result
}

func runFrame(fr *frame) {
	defer func() {
		if fr.block == nil {
			return // normal return
		}
		p := recover()
		tp, isTarget := p.(targetPanic)
		if !isTarget {
			if re, ok := p.(runtime.Error); ok && !fr.tolerant {
				// a host runtime error is an engine fault, never a target panic
				panic(fmt.Sprintf("engine fault: %v\nat %s\n%s", re, fr.pos(), fr.stack()))
			}
			panic(p)
		}
		if tp.where == "" {
			tp.where = fr.pos()
			if tp.runtime {
				tp.where = fr.pos() + " in " + fr.fn.String()
			}
		}
		if debugPanics && !tp.logged {
			tp.logged = true
			fmt.Fprintf(os.Stderr, "target panic: %s at %s\n%s", panicText(fr.i.run, tp), tp.where, fr.stack())
		}
		fr.panicking = true
		fr.panic = tp
		fr.runDefers()
		fr.block = fr.fn.Recover
		if fr.block == nil {
			// no named results: return zero values
			fr.result = zero(fr.fn.Signature.Results())
			if fr.fn.Signature.Results().Len() == 0 {
				fr.result = nil
			}
		}
	}()

	for {
		nonPhis := executePhis(fr)
		for _, instr := range nonPhis {
			fr.curInstr = instr
			r := fr.i.run
			r.curFr = fr
			r.steps++
			if r.steps > r.maxSteps {
				r.inconclusive = fmt.Sprintf("unwinding/step limit %d exceeded at %s", r.maxSteps, fr.pos())
				panic(runAbort{"inconclusive"})
			}
			if fr.i.tracing {
				if v, ok := instr.(ssa.Value); ok {
					fmt.Fprintf(os.Stderr, "%*s  %s = %s\n", fr.depth, "", v.Name(), instr)
				} else {
					fmt.Fprintf(os.Stderr, "%*s  %s\n", fr.depth, "", instr)
				}
			}
			var k continuation
			if fr.tolerant {
				k = visitTolerant(fr, instr)
			} else {
				k = visitInstr(fr, instr)
			}
			if k == kReturn {
				return
			}
			if k == kJump {
				break
			}
		}
	}
}

// visitTolerant executes one initialiser instruction; failures poison the result.
func visitTolerant(fr *frame, instr ssa.Instruction) (k continuation) {
	defer func() {
		if p := recover(); p != nil {
			switch p.(type) {
			case killedPanic, runAbort:
				panic(p)
			}
			if _, isCtl := instr.(*ssa.If); isCtl {
				panic(p)
			}
			if v, ok := instr.(ssa.Value); ok {
				fr.env[v] = poison{fmt.Sprint(p)}
			}
			k = kNext
		}
	}()
	// operands that are poisoned poison the result without executing
	if _, isStore := instr.(*ssa.Store); !isStore {
		var buf [8]*ssa.Value
		for _, op := range instr.Operands(buf[:0]) {
			if *op == nil {
				continue
			}
			if v, ok := fr.env[*op]; ok {
				if pz, bad := v.(poison); bad {
					switch instr.(type) {
					case *ssa.Phi, *ssa.MakeInterface, *ssa.ChangeType, *ssa.ChangeInterface, *ssa.Return:
					default:
						if val, ok := instr.(ssa.Value); ok {
							fr.env[val] = pz
						}
						return kNext
					}
				}
			}
		}
	}
	return visitInstr(fr, instr)
}

func executePhis(fr *frame) []ssa.Instruction {
	firstNonPhi := -1
	for i, instr := range fr.block.Instrs {
		if _, ok := instr.(*ssa.Phi); !ok {
			firstNonPhi = i
			break
		}
	}
	nonPhis := fr.block.Instrs[firstNonPhi:]
	if firstNonPhi > 0 {
		phis := fr.block.Instrs[:firstNonPhi]
		predIndex := slices.Index(fr.block.Preds, fr.prevBlock)
		fr.phitemps = fr.phitemps[:0]
		for _, phi := range phis {
			phi := phi.(*ssa.Phi)
			fr.phitemps = append(fr.phitemps, fr.get(phi.Edges[predIndex]))
		}
		for i, phi := range phis {
			fr.env[phi.(*ssa.Phi)] = fr.phitemps[i]
		}
	}
	return nonPhis
}

func doRecover(caller *frame) value {
	if caller != nil && !caller.panicking &&
		caller.caller != nil && caller.caller.panicking {
		caller.caller.panicking = false
		p := caller.caller.panic
		caller.caller.panic = nil
		switch p := p.(type) {
		case targetPanic:
			return p.v
		default:
			panic(fmt.Sprintf("unexpected panic type %T in target call to recover()", p))
		}
	}
	return iface{}
}

// concreteInt forces an integer value to a concrete one (forking over feasible values).
func (r *Run) concreteInt(v value) int64 {
	if s, ok := v.(symInt); ok {
		return r.concretize(s.t).Int64()
	}
	return asInt64(v)
}

// indexIn checks 0 <= idx < n (raising the Go run-time panic on the failing side) and returns a
// concrete index, forking over feasible values when idx is symbolic.
func (r *Run) indexIn(idx value, n int) int {
	if s, ok := idx.(symInt); ok {
		tc := r.tc
		in := tc.And(tc.Le(tc.Int64(0), s.t), tc.Lt(s.t, tc.Int64(int64(n))))
		if !r.branch(in) {
			panic(r.runtimePanic("index out of range"))
		}
		return int(r.concretize(s.t).Int64())
	}
	i := asInt64(idx)
	if i < 0 || i >= int64(n) {
		panic(r.runtimePanic(fmt.Sprintf("index out of range [%d] with length %d", i, n)))
	}
	return int(i)
}

// indexRead reads elems[idx]; a symbolic index over scalar elements becomes an ite-chain.
func (r *Run) indexRead(elems []value, idx value) value {
	s, ok := idx.(symInt)
	if !ok {
		return elems[r.indexIn(idx, len(elems))]
	}
	tc := r.tc
	in := tc.And(tc.Le(tc.Int64(0), s.t), tc.Lt(s.t, tc.Int64(int64(len(elems)))))
	if !r.branch(in) {
		panic(r.runtimePanic("index out of range"))
	}
	if len(elems) > 0 {
		if k, isInt := scalarIntKind(elems); isInt {
			res, _ := r.intTerm(elems[len(elems)-1])
			for i := len(elems) - 2; i >= 0; i-- {
				e, _ := r.intTerm(elems[i])
				res = tc.Ite(tc.Eq(s.t, tc.Int64(int64(i))), e, res)
			}
			return r.mkSymInt(res, k)
		}
	}
	return elems[int(r.concretize(s.t).Int64())]
}

func scalarIntKind(elems []value) (types.BasicKind, bool) {
	var k types.BasicKind
	for i, e := range elems {
		var ek types.BasicKind
		if s, ok := e.(symInt); ok {
			ek = s.goKind
		} else if hk, ok := hostKind(e); ok {
			ek = hk
		} else {
			return 0, false
		}
		if i == 0 {
			k = ek
		} else if ek != k {
			return 0, false
		}
	}
	return k, true
}
