package main

// One long-lived solver process per worker, SMT-LIB2 over a pipe.
// All definitions are global (sent before the query); every query is
//   (push 1) (assert lit)... (check-sat) [(get-value ...)] (pop 1)
// so the solver side carries no per-run state.

import (
	"bufio"
	"fmt"
	"io"
	"math/big"
	"os"
	"os/exec"
	"strings"
	"time"
)

type Solver struct {
	name    string
	cmd     *exec.Cmd
	in      io.WriteCloser
	out     *bufio.Reader
	ctx     *TermCtx
	queries int
	sat, unsat, unknown int
	elapsed time.Duration
	log     *os.File
	timeoutMs int
	dead    bool
	closed  bool
	stack   []*Term
	retried int
}

func solverArgs(name string, timeoutMs int) (string, []string) {
	switch name {
	case "z3":
		return "z3", []string{"-in", fmt.Sprintf("-t:%d", timeoutMs)}
	case "z3-new":
		return "z3-new", []string{"-in", fmt.Sprintf("-t:%d", timeoutMs)}
	case "cvc5":
		return "cvc5", []string{"--incremental", "--lang=smt2", fmt.Sprintf("--tlimit-per=%d", timeoutMs)}
	}
	panic("unknown solver " + name)
}

func NewSolver(name string, ctx *TermCtx, timeoutMs int, logPath string) (*Solver, error) {
	bin, args := solverArgs(name, timeoutMs)
	cmd := exec.Command(bin, args...)
	in, err := cmd.StdinPipe()
	if err != nil {
		return nil, err
	}
	out, err := cmd.StdoutPipe()
	if err != nil {
		return nil, err
	}
	cmd.Stderr = os.Stderr
	if err := cmd.Start(); err != nil {
		return nil, err
	}
	s := &Solver{name: name, cmd: cmd, in: in, out: bufio.NewReaderSize(out, 1<<16), ctx: ctx, timeoutMs: timeoutMs}
	if logPath != "" {
		s.log, _ = os.Create(logPath)
	}
	s.send(smtPrelude)
	return s, nil
}

func (s *Solver) send(text string) {
	if s.log != nil {
		s.log.WriteString(text)
	}
	if _, err := io.WriteString(s.in, text); err != nil {
		s.dead = true
	}
}

// Kill terminates the solver process; pending and later queries answer unknown.
func (s *Solver) Kill() {
	s.dead = true
	if s.cmd != nil && s.cmd.Process != nil {
		s.cmd.Process.Kill()
	}
}

func (s *Solver) Close() {
	if s.closed {
		return
	}
	s.closed = true
	if s.cmd != nil {
		s.in.Close()
		s.cmd.Process.Kill()
		s.cmd.Wait()
	}
	if s.log != nil {
		s.log.Close()
	}
}

// readSexp reads one complete answer: either an atom line or a balanced s-expression.
func (s *Solver) readSexp() (string, error) {
	var sb strings.Builder
	depth := 0
	started := false
	inQuote := false
	inStr := false
	for {
		b, err := s.out.ReadByte()
		if err != nil {
			return sb.String(), err
		}
		if !started {
			if b == ' ' || b == '\n' || b == '\r' || b == '\t' {
				continue
			}
			started = true
		}
		sb.WriteByte(b)
		if b == '|' && !inStr {
			inQuote = !inQuote
		}
		if b == '"' && !inQuote {
			inStr = !inStr
		}
		if inQuote || inStr {
			continue
		}
		if b == '(' {
			depth++
		} else if b == ')' {
			depth--
			if depth == 0 {
				return sb.String(), nil
			}
		} else if depth == 0 && (b == '\n') {
			return strings.TrimSpace(sb.String()), nil
		}
	}
}

type Result int

const (
	Unsat Result = iota
	Sat
	Unknown
)

func (r Result) String() string { return [...]string{"unsat", "sat", "unknown"}[r] }

// Check decides satisfiability of pc ∧ extra. The solver-side assertion stack mirrors pc (one push
// level per literal) so that consecutive queries along one path, and sibling paths sharing a prefix,
// reuse the solver state; new definitions and global axioms are only ever emitted at level 0.
func (s *Solver) Check(pc []*Term, wantModel []*Term, extra ...*Term) (Result, map[string]string) {
	if s.dead {
		return Unknown, nil
	}
	var defs strings.Builder
	for _, l := range pc {
		s.ctx.emit(l, &defs)
	}
	for _, l := range extra {
		s.ctx.emit(l, &defs)
	}
	for _, v := range wantModel {
		s.ctx.emit(v, &defs)
	}
	s.ctx.flAxioms(&defs)
	for _, a := range s.ctx.axioms {
		defs.WriteString(a)
		defs.WriteByte('\n')
	}
	s.ctx.axioms = s.ctx.axioms[:0]
	var sb strings.Builder
	if defs.Len() > 0 {
		if len(s.stack) > 0 {
			fmt.Fprintf(&sb, "(pop %d)\n", len(s.stack))
			s.stack = s.stack[:0]
		}
		sb.WriteString(defs.String())
	}
	// synchronise the stack with pc
	k := 0
	for k < len(s.stack) && k < len(pc) && s.stack[k] == pc[k] {
		k++
	}
	if k < len(s.stack) {
		fmt.Fprintf(&sb, "(pop %d)\n", len(s.stack)-k)
		s.stack = s.stack[:k]
	}
	for _, l := range pc[k:] {
		fmt.Fprintf(&sb, "(push 1)\n(assert %s)\n", l.name)
		s.stack = append(s.stack, l)
	}
	sb.WriteString("(push 1)\n")
	for _, l := range extra {
		if l.isCon && l.bval {
			continue
		}
		fmt.Fprintf(&sb, "(assert %s)\n", l.name)
	}
	sb.WriteString("(check-sat)\n")
	sb.WriteString("(echo \"@@done\")\n")
	t0 := time.Now()
	s.send(sb.String())
	s.queries++
	answers, bad := s.readUntilMarker()
	dt := time.Since(t0)
	s.elapsed += dt
	if dt > 2*time.Second && os.Getenv("VERIF_SLOWQ") != "" {
		fmt.Fprintf(os.Stderr, "slow query %.1fs: pc=%d extra=%v answers=%v\n", dt.Seconds(), len(pc), extra, answers)
		for _, l := range extra {
			fmt.Fprintf(os.Stderr, "   %s := %s\n", l.name, l.expr())
		}
	}
	res := Unknown
	if !bad {
		for _, a := range answers {
			switch a {
			case "sat":
				res = Sat
			case "unsat":
				res = Unsat
			}
		}
	}
	if res == Unknown && !s.dead && os.Getenv("VERIF_NO_RETRY") == "" {
		// retry in fresh processes (other solver builds included) on a script reduced to what this
		// query depends on; only if all of them fail is the query inconclusive
		if r2, m2 := s.retryFresh(pc, extra, wantModel); r2 != Unknown {
			s.send("(pop 1)\n")
			s.retried++
			if r2 == Sat {
				s.sat++
			} else {
				s.unsat++
			}
			return r2, m2
		}
	}
	switch res {
	case Sat:
		s.sat++
	case Unsat:
		s.unsat++
	default:
		s.unknown++
	}
	var model map[string]string
	if res == Sat && len(wantModel) > 0 {
		var q strings.Builder
		q.WriteString("(get-value (")
		for _, v := range wantModel {
			q.WriteString(v.name)
			q.WriteByte(' ')
		}
		q.WriteString("))\n(echo \"@@done\")\n")
		s.send(q.String())
		mv, bad := s.readUntilMarker()
		if !bad && len(mv) > 0 {
			model = parseModel(mv[len(mv)-1], wantModel)
		}
	}
	s.send("(pop 1)\n")
	return res, model
}

// readUntilMarker collects solver answers up to the echo marker; bad is set when any of them
// is an (error ...) line or the pipe broke (the query is then inconclusive).
func (s *Solver) readUntilMarker() (answers []string, bad bool) {
	for {
		a, err := s.readSexp()
		if err != nil {
			s.dead = true
			return answers, true
		}
		if strings.Trim(a, "\"") == "@@done" {
			return answers, bad
		}
		if strings.HasPrefix(a, "(error") {
			fmt.Fprintf(os.Stderr, "solver %s: %s\n", s.name, a)
			bad = true
		}
		answers = append(answers, a)
	}
}

// ---- tiny s-expression parser for (get-value) answers

type sx struct {
	atom string
	list []*sx
}

func parseSx(s string) *sx {
	pos := 0
	var parse func() *sx
	skip := func() {
		for pos < len(s) && (s[pos] == ' ' || s[pos] == '\n' || s[pos] == '\t' || s[pos] == '\r') {
			pos++
		}
	}
	parse = func() *sx {
		skip()
		if pos >= len(s) {
			return nil
		}
		if s[pos] == '(' {
			pos++
			n := &sx{list: []*sx{}}
			for {
				skip()
				if pos >= len(s) {
					return n
				}
				if s[pos] == ')' {
					pos++
					return n
				}
				n.list = append(n.list, parse())
			}
		}
		st := pos
		if s[pos] == '|' {
			pos++
			for pos < len(s) && s[pos] != '|' {
				pos++
			}
			pos++
		} else {
			for pos < len(s) && s[pos] != ' ' && s[pos] != ')' && s[pos] != '(' && s[pos] != '\n' {
				pos++
			}
		}
		return &sx{atom: s[st:pos]}
	}
	return parse()
}

func sxRat(n *sx) *big.Rat {
	if n == nil {
		return nil
	}
	if n.list == nil {
		r := new(big.Rat)
		a := strings.TrimSuffix(n.atom, "?")
		if _, ok := r.SetString(a); ok {
			return r
		}
		if a == "true" {
			return big.NewRat(1, 1)
		}
		if a == "false" {
			return big.NewRat(0, 1)
		}
		return nil
	}
	if len(n.list) == 2 && n.list[0].atom == "-" {
		r := sxRat(n.list[1])
		if r == nil {
			return nil
		}
		return r.Neg(r)
	}
	if len(n.list) == 3 && n.list[0].atom == "/" {
		a, b := sxRat(n.list[1]), sxRat(n.list[2])
		if a == nil || b == nil || b.Sign() == 0 {
			return nil
		}
		return a.Quo(a, b)
	}
	if len(n.list) == 2 && n.list[0].atom == "to_real" {
		return sxRat(n.list[1])
	}
	return nil
}

func parseModel(s string, vars []*Term) map[string]string {
	root := parseSx(s)
	m := map[string]string{}
	if root == nil {
		return m
	}
	for i, pair := range root.list {
		if len(pair.list) != 2 || i >= len(vars) {
			continue
		}
		r := sxRat(pair.list[1])
		if r == nil {
			m[vars[i].name] = sxText(pair.list[1])
			continue
		}
		if r.IsInt() {
			m[vars[i].name] = r.Num().String()
		} else {
			m[vars[i].name] = r.String()
		}
	}
	return m
}

func sxText(n *sx) string {
	if n.list == nil {
		return n.atom
	}
	parts := []string{}
	for _, c := range n.list {
		parts = append(parts, sxText(c))
	}
	return "(" + strings.Join(parts, " ") + ")"
}

// retryFresh decides pc AND extra in fresh solver processes.
func (s *Solver) retryFresh(pc []*Term, extra []*Term, wantModel []*Term) (Result, map[string]string) {
	lits := append(append([]*Term{}, pc...), extra...)
	script := s.ctx.freshScript(lits, wantModel)
	type cand struct {
		bin  string
		args []string
	}
	cands := []cand{
		{"z3", []string{"-in", "-t:60000"}},
		{"z3-new", []string{"-in", "-t:60000"}},
		{"cvc5", []string{"--lang=smt2", "--produce-models", "--tlimit=60000"}},
	}
	if dir := os.Getenv("VERIF_SMTLOG"); dir != "" {
		os.WriteFile(dir+"/retry.smt2", []byte(script), 0o644)
	}
	for _, c := range cands {
		cmd := exec.Command(c.bin, c.args...)
		cmd.Stdin = strings.NewReader(script)
		t0 := time.Now()
		outb, _ := cmd.Output()
		s.elapsed += time.Since(t0)
		out := strings.TrimSpace(string(outb))
		lines := strings.SplitN(out, "\n", 2)
		// an (error ...) before the verdict makes the run inconclusive; the get-value error that
		// follows an unsat verdict ("model is not available") is expected
		switch strings.TrimSpace(lines[0]) {
		case "unsat":
			return Unsat, nil
		case "sat":
			var model map[string]string
			if len(wantModel) > 0 && len(lines) > 1 && !strings.Contains(lines[1], "(error") {
				model = parseModel(strings.TrimSpace(lines[1]), wantModel)
			}
			if len(wantModel) > 0 && model == nil {
				continue
			}
			return Sat, model
		}
	}
	return Unknown, nil
}
