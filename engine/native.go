package main

// Native differential validation (DESIGN 2.10): for entries marked `native`, models of explored
// paths are written as replay files and the SAME harness is compiled and run natively (go test
// -overlay, verifrt in replay mode) against the real code of the tree under check. A path on which
// the engine discharged every assertion must run natively without a failed assertion or a panic;
// any disagreement means the translation (engine semantics, a stub) is wrong on that path and makes
// the check inconclusive (exit 2) - it is never reported as a finding. The same runner replays
// violations natively before they are reported.

import (
	"encoding/json"
	"fmt"
	"os"
	"os/exec"
	"path/filepath"
	"strings"
	"time"
)

type nativeResult struct {
	ran      int
	failed   []string // "<file>: <message>" for samples whose native run failed an assertion or panicked
	buildErr string
}

// nativeRun compiles the property's harness files of the entry's package together with a generated
// test driver and runs the entry once per input assignment.
func (d *Driver) nativeRun(e *HarnessEntry, inputs []map[string]string) nativeResult {
	var res nativeResult
	if len(inputs) == 0 {
		return res
	}
	tmp, err := os.MkdirTemp("", "gosym-native-")
	if err != nil {
		res.buildErr = err.Error()
		return res
	}
	defer os.RemoveAll(tmp)
	for i, in := range inputs {
		b, _ := json.Marshal(map[string]interface{}{"inputs": in})
		os.WriteFile(filepath.Join(tmp, fmt.Sprintf("in%03d.json", i)), b, 0o644)
	}
	overlay := map[string]string{
		filepath.Join(d.repo, "internal", "verifrt", "verifrt.go"): filepath.Join(verifDir, "verifrt", "verifrt.go"),
	}
	// virtual clock: core/timex reads the harness clock (verifrt.SetNow/Advance)
	clock := filepath.Join(tmp, "relativetime.go")
	os.WriteFile(clock, []byte(`package timex

import (
	"time"

	rt "github.com/zeromicro/go-zero/internal/verifrt"
)

// native replay: the relative clock is the harness's virtual clock
func Now() time.Duration { return time.Duration(rt.Now()) }

func Since(d time.Duration) time.Duration { return time.Duration(rt.Now()) - d }
`), 0o644)
	overlay[filepath.Join(d.repo, "core", "timex", "relativetime.go")] = clock
	hfiles, _ := filepath.Glob(filepath.Join(verifDir, "harness", d.prop, "*.go"))
	pkgName := ""
	for _, f := range hfiles {
		src, err := os.ReadFile(f)
		if err != nil {
			continue
		}
		dir := ""
		for _, line := range strings.Split(string(src), "\n") {
			line = strings.TrimSpace(line)
			if strings.HasPrefix(line, "//verif:pkg ") {
				dir = strings.TrimSpace(strings.TrimPrefix(line, "//verif:pkg "))
			}
			if strings.HasPrefix(line, "package ") && dir == e.PkgDir && pkgName == "" {
				pkgName = strings.TrimSpace(strings.TrimPrefix(line, "package "))
			}
		}
		if dir == "" {
			continue
		}
		base := strings.TrimSuffix(filepath.Base(f), ".go")
		overlay[filepath.Join(d.repo, dir, "zz_verif_"+strings.ToLower(d.prop)+"_"+base+".go")] = f
	}
	if pkgName == "" {
		res.buildErr = "cannot determine the harness package name"
		return res
	}
	driver := fmt.Sprintf(`package %s

import (
	"fmt"
	"os"
	"path/filepath"
	"sort"
	"strings"
	"testing"

	rt "github.com/zeromicro/go-zero/internal/verifrt"
)

func TestVerifNative(t *testing.T) {
	files, _ := filepath.Glob(filepath.Join(os.Getenv("VERIF_NATIVE_DIR"), "in*.json"))
	sort.Strings(files)
	for _, f := range files {
		os.Setenv("VERIF_REPLAY", f)
		rt.Reset()
		var panicked any
		func() {
			defer func() { panicked = recover() }()
			%s()
		}()
		switch {
		case panicked != nil:
			fmt.Printf("VERIF-NATIVE %%s panic %%v\n", filepath.Base(f), panicked)
		case len(rt.Failures) > 0:
			fmt.Printf("VERIF-NATIVE %%s fail %%s\n", filepath.Base(f), strings.Join(rt.Failures, " | "))
		default:
			fmt.Printf("VERIF-NATIVE %%s ok\n", filepath.Base(f))
		}
	}
}
`, pkgName, e.Name)
	drv := filepath.Join(tmp, "driver_test.go")
	os.WriteFile(drv, []byte(driver), 0o644)
	overlay[filepath.Join(d.repo, e.PkgDir, "zz_verif_native_test.go")] = drv
	ob, _ := json.Marshal(map[string]interface{}{"Replace": overlay})
	ofile := filepath.Join(tmp, "overlay.json")
	os.WriteFile(ofile, ob, 0o644)
	cmd := exec.Command("go", "test", "-v", "-vet=off", "-count=1", "-timeout", "120s", "-overlay", ofile, "-run", "^TestVerifNative$", "./"+e.PkgDir)
	cmd.Dir = d.repo
	cmd.Env = append(os.Environ(), "GOFLAGS=-mod=mod", "GOPROXY=off", "GOSUMDB=off", "GOTOOLCHAIN=local", "CGO_ENABLED=0",
		"VERIF_NATIVE_DIR="+tmp, fmt.Sprintf("VERIF_TIER_N=%d", d.tier))
	done := make(chan struct{})
	var out []byte
	var runErr error
	go func() {
		out, runErr = cmd.CombinedOutput()
		close(done)
	}()
	select {
	case <-done:
	case <-time.After(240 * time.Second):
		if cmd.Process != nil {
			cmd.Process.Kill()
		}
		<-done
		res.buildErr = "native run timed out"
		return res
	}
	seen := 0
	for _, line := range strings.Split(string(out), "\n") {
		if !strings.HasPrefix(line, "VERIF-NATIVE ") {
			continue
		}
		f := strings.Fields(line)
		if len(f) < 3 {
			continue
		}
		seen++
		if f[2] == "ok" {
			res.ran++
		} else {
			res.failed = append(res.failed, strings.TrimPrefix(line, "VERIF-NATIVE "))
		}
	}
	if seen < len(inputs) {
		msg := string(out)
		if len(msg) > 600 {
			msg = msg[len(msg)-600:]
		}
		res.buildErr = fmt.Sprintf("native run produced %d of %d results (%v): %s", seen, len(inputs), runErr, msg)
	}
	return res
}
