package main

// Single-node Redis model (DESIGN 2.8, trusted and listed in the evidence): keys are strings
// (concrete or atoms), values are strings or integer/real texts, each key has an optional absolute
// expiry (ms) on the model clock (= virtual clock of the run). Scripts run atomically. The harness
// can preset and inspect the state through verifrt.Redis* and can make calls fail.

import (
	"fmt"
	"go/types"
	"math/big"
	"os"
	"strings"
	"sync"

	"golang.org/x/tools/go/ssa"
)

type redisEntry struct {
	key      value  // string | symStr
	val      luaVal // lStr (text, or number text when s == nil)
	expireAt value  // nil = persistent; int64 | symInt milliseconds
	dead     bool
}

type redisModel struct {
	r        *Run
	entries  []*redisEntry
	failNext value // bool | symBool: calls fail while set
	calls    int
	scripts  int
	failAt   int
	failAtSet bool
	writes   int
	noTTLWrites int
	log      []string
}

func (r *Run) redisModel() *redisModel {
	if m, ok := r.redis.(*redisModel); ok {
		return m
	}
	m := &redisModel{r: r, failNext: false}
	r.redis = m
	return m
}

func (m *redisModel) nowMs() value {
	return binop(m.r, tokenQUO, nil, m.r.now, int64(1000000))
}

// find returns the live entry for key (lazy expiry: an entry whose expiry has passed is dropped).
func (m *redisModel) find(key value) *redisEntry {
	r := m.r
	for _, e := range m.entries {
		if e.dead {
			continue
		}
		if !r.truth(r.eqv(types.Typ[types.String], e.key, key)) {
			continue
		}
		if os.Getenv("VERIF_DEBUG_REDIS") != "" {
			fmt.Fprintf(os.Stderr, "redis: find %v: entry expireAt=%v now=%v\n", toString(key), toString(e.expireAt), toString(m.nowMs()))
		}
		if e.expireAt != nil && r.truth(binop(r, tokenLEQ, nil, e.expireAt, m.nowMs())) {
			e.dead = true
			return nil
		}
		return e
	}
	return nil
}

func (m *redisModel) set(key value, val luaVal, expireAt value) {
	if e := m.find(key); e != nil {
		e.val, e.expireAt = val, expireAt
		return
	}
	m.entries = append(m.entries, &redisEntry{key: key, val: val, expireAt: expireAt})
}

func (m *redisModel) del(key value) bool {
	if e := m.find(key); e != nil {
		e.dead = true
		return true
	}
	return false
}

// storable converts a command argument to the stored representation (Redis stores text).
func (m *redisModel) storable(l *luaState, v luaVal) luaVal {
	switch v.k {
	case lStr:
		// canonical integer texts are kept as numbers so that INCRBY/tonumber stay exact
		if s, ok := v.s.(string); ok {
			if i, ok := new(big.Int).SetString(s, 10); ok && i.String() == s {
				return luaVal{k: lStr, n: m.r.tc.Int(i)}
			}
		}
		if s, ok := v.s.(symStr); ok && s.t.op == "raw" && s.t.extra == "(itoa $0)" {
			return luaVal{k: lStr, n: s.t.args[0]}
		}
		return v
	case lNum:
		return luaVal{k: lStr, n: v.n}
	}
	panic(luaError{"Lua redis() command arguments must be strings or integers"})
}

func (m *redisModel) intArg(l *luaState, v luaVal, what string) *Term {
	n, ok := l.toNumber(v)
	if !ok {
		panic(luaError{"ERR value is not an integer or out of range (" + what + ")"})
	}
	t := n.n
	if t.sort == SReal {
		if t.isCon && t.rval.IsInt() {
			return m.r.tc.Int(t.rval.Num())
		}
		// a non-integer where Redis expects an integer is an error reply
		isInt := m.r.tc.Eq(m.r.tc.ToReal(m.r.tc.Floor(t)), t)
		if !m.r.branch(isInt) {
			panic(luaError{"ERR value is not an integer or out of range (" + what + ")"})
		}
		return m.r.tc.Floor(t)
	}
	return t
}

func (m *redisModel) expiryFrom(t *Term, unitMs int64) value {
	r := m.r
	d := r.mkSymInt(r.tc.Mul(t, r.tc.Int64(unitMs)), types.Int64)
	return binop(r, tokenADD, nil, m.nowMs(), d)
}

func (m *redisModel) positive(t *Term) bool {
	return m.r.branch(m.r.tc.Lt(m.r.tc.Int64(0), t))
}

var statusOK = luaVal{k: lStatus, s: "OK"}

// command executes one redis.call from a script (also used by the Go-level command stubs).
func (m *redisModel) command(l *luaState, args []luaVal) luaVal {
	r := m.r
	tc := r.tc
	cs, ok := args[0].s.(string)
	if args[0].k != lStr || !ok {
		panic(unsupported{"redis model: command name must be a concrete string"})
	}
	cmd := strings.ToUpper(cs)
	a := args[1:]
	if os.Getenv("VERIF_DEBUG_REDIS") != "" {
		fmt.Fprintf(os.Stderr, "redis: %s", cmd)
		for _, x := range a {
			if x.s != nil {
				fmt.Fprintf(os.Stderr, " %v", toString(x.s))
			} else if x.n != nil {
				fmt.Fprintf(os.Stderr, " #%s", x.n.name)
			}
		}
		fmt.Fprintf(os.Stderr, " (now_ms=%v)\n", toString(m.nowMs()))
	}
	need := func(n int) {
		if len(a) < n {
			panic(luaError{"ERR wrong number of arguments for '" + strings.ToLower(cmd) + "' command"})
		}
	}
	keyOf := func(v luaVal) value {
		if v.k == lNum {
			return l.strValue(v)
		}
		if v.k != lStr {
			panic(luaError{"Lua redis() command arguments must be strings or integers"})
		}
		return l.strValue(v)
	}
	num := func(t *Term) luaVal { return luaVal{k: lNum, n: t} }
	switch cmd {
	case "GET":
		need(1)
		if e := m.find(keyOf(a[0])); e != nil {
			return e.val
		}
		return luaB(false)
	case "EXISTS":
		need(1)
		if m.find(keyOf(a[0])) != nil {
			return num(tc.Int64(1))
		}
		return num(tc.Int64(0))
	case "SET":
		need(2)
		key := keyOf(a[0])
		val := m.storable(l, a[1])
		nx, xx := false, false
		var expireAt value
		for i := 2; i < len(a); i++ {
			os, ok := a[i].s.(string)
			if a[i].k != lStr || !ok {
				panic(luaError{"ERR syntax error"})
			}
			switch strings.ToUpper(os) {
			case "NX":
				nx = true
			case "XX":
				xx = true
			case "PX", "EX":
				if i+1 >= len(a) {
					panic(luaError{"ERR syntax error"})
				}
				t := m.intArg(l, a[i+1], "expire")
				if !m.positive(t) {
					panic(luaError{"ERR invalid expire time in 'set' command"})
				}
				unit := int64(1)
				if strings.ToUpper(os) == "EX" {
					unit = 1000
				}
				expireAt = m.expiryFrom(t, unit)
				i++
			default:
				panic(unsupported{"redis model: SET option " + os})
			}
		}
		ex := m.find(key)
		if (nx && ex != nil) || (xx && ex == nil) {
			return luaB(false)
		}
		m.writes++
		if expireAt == nil {
			m.noTTLWrites++
		}
		m.set(key, val, expireAt)
		return statusOK
	case "SETEX", "PSETEX":
		need(3)
		key := keyOf(a[0])
		t := m.intArg(l, a[1], "expire")
		if !m.positive(t) {
			panic(luaError{"ERR invalid expire time in '" + strings.ToLower(cmd) + "' command"})
		}
		unit := int64(1000)
		if cmd == "PSETEX" {
			unit = 1
		}
		m.writes++
		m.set(key, m.storable(l, a[2]), m.expiryFrom(t, unit))
		return statusOK
	case "SETNX":
		need(2)
		key := keyOf(a[0])
		if m.find(key) != nil {
			return num(tc.Int64(0))
		}
		m.writes++
		m.noTTLWrites++
		m.set(key, m.storable(l, a[1]), nil)
		return num(tc.Int64(1))
	case "DEL", "UNLINK":
		need(1)
		n := int64(0)
		for _, k := range a {
			if m.del(keyOf(k)) {
				n++
			}
		}
		return num(tc.Int64(n))
	case "INCRBY", "INCR", "DECR", "DECRBY":
		need(1)
		key := keyOf(a[0])
		delta := tc.Int64(1)
		if cmd == "INCRBY" || cmd == "DECRBY" {
			need(2)
			delta = m.intArg(l, a[1], "increment")
		}
		if cmd == "DECR" || cmd == "DECRBY" {
			delta = tc.Neg(delta)
		}
		cur := tc.Int64(0)
		e := m.find(key)
		if e != nil {
			n, ok := l.toNumber(e.val)
			if !ok || n.n.sort != SInt {
				panic(luaError{"ERR value is not an integer or out of range"})
			}
			cur = n.n
		}
		nv := tc.Add(cur, delta)
		if e != nil {
			e.val = luaVal{k: lStr, n: nv}
		} else {
			m.writes++
			m.noTTLWrites++
			m.set(key, luaVal{k: lStr, n: nv}, nil)
		}
		return num(nv)
	case "EXPIRE", "PEXPIRE":
		need(2)
		e := m.find(keyOf(a[0]))
		if e == nil {
			return num(tc.Int64(0))
		}
		t := m.intArg(l, a[1], "expire")
		if !m.positive(t) {
			e.dead = true
			return num(tc.Int64(1))
		}
		unit := int64(1000)
		if cmd == "PEXPIRE" {
			unit = 1
		}
		e.expireAt = m.expiryFrom(t, unit)
		return num(tc.Int64(1))
	case "TTL", "PTTL":
		need(1)
		e := m.find(keyOf(a[0]))
		if e == nil {
			return num(tc.Int64(-2))
		}
		if e.expireAt == nil {
			return num(tc.Int64(-1))
		}
		rem, _ := r.intTerm(binop(r, tokenSUB, nil, e.expireAt, m.nowMs()))
		if cmd == "TTL" {
			// rounded to the nearest second as Redis does ((ms+500)/1000)
			rem = tc.FDiv(tc.Add(rem, tc.Int64(500)), big.NewInt(1000))
		}
		return num(rem)
	case "PERSIST":
		need(1)
		e := m.find(keyOf(a[0]))
		if e == nil || e.expireAt == nil {
			return num(tc.Int64(0))
		}
		e.expireAt = nil
		return num(tc.Int64(1))
	}
	panic(unsupported{"redis model: command " + cmd + " is not modelled"})
}

// runScript evaluates script src with KEYS/ARGV and returns the go-redis view (result, error kind).
// errKind: "" ok, "nil" redis.Nil, otherwise an error message.
func (m *redisModel) runScript(src string, keys, argv []value) (res value, errKind string) {
	luaCacheMu.Lock()
	prog, ok := luaCache[src]
	luaCacheMu.Unlock()
	if !ok {
		prog = luaParse(src)
		luaCacheMu.Lock()
		luaCache[src] = prog
		luaCacheMu.Unlock()
	}
	toTable := func(vs []value) *luaVal {
		t := &luaVal{k: lTable}
		for _, v := range vs {
			t.arr = append(t.arr, luaVal{k: lStr, s: v})
		}
		return t
	}
	l := &luaState{r: m.r, rm: m, scopes: []map[string]*luaVal{{"KEYS": toTable(keys), "ARGV": toTable(argv)}}}
	failed := ""
	func() {
		defer func() {
			if p := recover(); p != nil {
				if le, ok := p.(luaError); ok {
					failed = le.msg
					return
				}
				panic(p)
			}
		}()
		l.execBlock(prog)
	}()
	if failed != "" {
		return nil, "ERR Error running script: " + failed
	}
	if l.ret == nil {
		return nil, "nil"
	}
	return m.toGo(l, *l.ret)
}

// toGo converts a Lua return value to what go-redis' Cmd.Result() yields.
func (m *redisModel) toGo(l *luaState, v luaVal) (value, string) {
	r := m.r
	switch v.k {
	case lNil:
		return nil, "nil"
	case lBool:
		if r.truth(v.b) {
			return iface{t: types.Typ[types.Int64], v: int64(1)}, ""
		}
		return nil, "nil"
	case lNum:
		t := v.n
		if t.sort == SReal {
			t = r.tc.Trunc(t)
		}
		return iface{t: types.Typ[types.Int64], v: r.mkSymInt(t, types.Int64)}, ""
	case lStr, lStatus:
		return iface{t: types.Typ[types.String], v: l.strValue(v)}, ""
	}
	panic(unsupported{"redis model: script returned a table"})
}

var luaCacheMu sync.Mutex

// ---------- Go-level entry points

func (r *Run) redisNilError() value {
	pkg := r.interp.prog.ImportedPackage("github.com/redis/go-redis/v9/internal/proto")
	if pkg == nil {
		panic(unsupported{"go-redis proto package not loaded"})
	}
	return iface{t: pkg.Type("RedisError").Type(), v: "redis: nil"}
}

func (r *Run) redisErr(kind string) value {
	if kind == "" {
		return iface{}
	}
	if kind == "nil" {
		return r.redisNilError()
	}
	return r.newError(kind)
}

func flattenArgs(r *Run, vs []value) []value {
	var out []value
	for _, v := range vs {
		if i, ok := v.(iface); ok {
			v = i.v
		}
		switch x := v.(type) {
		case []value:
			out = append(out, flattenArgs(r, x)...)
		case string, symStr:
			out = append(out, x)
		case symInt:
			out = append(out, r.ufStr("itoa", x.t))
		default:
			if _, isInt := hostKind(v); isInt {
				out = append(out, hostBig(v).String())
			} else {
				panic(unsupported{fmt.Sprintf("redis model: argument of type %T", v)})
			}
		}
	}
	return out
}

// ctxErr returns the interpreted ctx.Err() (nil interface when ctx is nil).
func (r *Run) ctxErr(fr *frame, ctx value) value {
	c, ok := ctx.(iface)
	if !ok || c.t == nil {
		return iface{}
	}
	return r.callIfaceMethod(fr, c, "Err")
}

// preCall handles what every store call has in common: context cancellation and injected faults.
func (m *redisModel) preCall(fr *frame, ctx value) (value, bool) {
	r := m.r
	m.calls++
	if e := r.ctxErr(fr, ctx).(iface); e.t != nil {
		return e, true
	}
	if m.failAtSet && m.calls-1 == m.failAt {
		return r.newError("redis model: store unreachable (injected fault)"), true
	}
	if r.truth(m.failNext) {
		return r.newError("redis model: store unreachable (injected fault)"), true
	}
	return nil, false
}

func scriptSource(v value) string {
	p, ok := v.(*value)
	if !ok || p == nil {
		panic(unsupported{"redis model: nil *Script"})
	}
	st := (*p).(structure)
	s, ok := st[0].(string)
	if !ok {
		panic(unsupported{"redis model: script text is not a concrete string"})
	}
	return s
}

func init() {
	// red.NewScript: keep the source, skip the SHA1 (the model evaluates the text directly)
	reg("github.com/redis/go-redis/v9.NewScript", func(fr *frame, a []value) value {
		var cell value = structure{a[0], ""}
		return &cell
	})
	reg("(*github.com/zeromicro/go-zero/core/stores/redis.Redis).ScriptRunCtx", func(fr *frame, a []value) value {
		r := fr.i.run
		m := r.redisModel()
		if e, failed := m.preCall(fr, a[1]); failed {
			return tuple{iface{}, e}
		}
		src := scriptSource(a[2])
		m.scripts++
		keys := flattenArgs(r, variadic(a[3]))
		argv := flattenArgs(r, variadic(a[4]))
		res, ek := m.runScript(src, keys, argv)
		if ek != "" {
			return tuple{iface{}, r.redisErr(ek)}
		}
		return tuple{res, iface{}}
	})
	reg("(*github.com/zeromicro/go-zero/core/stores/redis.Redis).Ping", func(fr *frame, a []value) value {
		r := fr.i.run
		m := r.redisModel()
		m.calls++
		return !r.truth(m.failNext)
	})
	reg("(*github.com/zeromicro/go-zero/core/stores/redis.Redis).PingCtx", func(fr *frame, a []value) value {
		r := fr.i.run
		m := r.redisModel()
		if _, failed := m.preCall(fr, a[1]); failed {
			return false
		}
		return true
	})

	// ---- Go-level commands of core/stores/redis (the four-line getRedis/conn.X/Result glue of each is
	// replaced by the model; documented reply conversions: GET miss => "", nil)
	const rp = "(*github.com/zeromicro/go-zero/core/stores/redis.Redis)."
	lstr := func(v value) luaVal { return luaVal{k: lStr, s: v} }
	run := func(fr *frame, ctx value, args ...luaVal) (luaVal, value) {
		r := fr.i.run
		m := r.redisModel()
		if e, failed := m.preCall(fr, ctx); failed {
			return luaNilV, e
		}
		l := &luaState{r: r, rm: m}
		var out luaVal
		failed := ""
		func() {
			defer func() {
				if p := recover(); p != nil {
					if le, ok := p.(luaError); ok {
						failed = le.msg
						return
					}
					panic(p)
				}
			}()
			out = m.command(l, args)
		}()
		if failed != "" {
			return luaNilV, r.newError(failed)
		}
		return out, iface{}
	}
	reg(rp+"GetCtx", func(fr *frame, a []value) value {
		r := fr.i.run
		out, err := run(fr, a[1], lstr("GET"), lstr(a[2]))
		if err.(iface).t != nil {
			return tuple{"", err}
		}
		if out.k != lStr {
			return tuple{"", iface{}} // miss: redis.Nil is mapped to ("", nil)
		}
		l := &luaState{r: r, rm: r.redisModel()}
		return tuple{l.strValue(out), iface{}}
	})
	setWithTTL := func(fr *frame, ctx, key, val, seconds value, nx bool) (luaVal, value) {
		r := fr.i.run
		args := []luaVal{lstr("SET"), lstr(key), lstr(val)}
		if nx {
			args = append(args, lstr("NX"))
		}
		// go-redis: expiration > 0 => EX seconds, otherwise a plain (persistent) SET
		if r.truth(binop(r, tokenLSS, nil, conv(r, types.Typ[types.Int64], types.Typ[types.Int], 0), conv(r, types.Typ[types.Int64], types.Typ[types.Int], seconds))) {
			t, _ := r.intTerm(seconds)
			args = append(args, lstr("EX"), luaVal{k: lNum, n: t})
		}
		return run(fr, ctx, args...)
	}
	reg(rp+"SetexCtx", func(fr *frame, a []value) value {
		_, err := setWithTTL(fr, a[1], a[2], a[3], a[4], false)
		return err
	})
	reg(rp+"SetCtx", func(fr *frame, a []value) value {
		_, err := run(fr, a[1], lstr("SET"), lstr(a[2]), lstr(a[3]))
		return err
	})
	reg(rp+"SetnxExCtx", func(fr *frame, a []value) value {
		out, err := setWithTTL(fr, a[1], a[2], a[3], a[4], true)
		if err.(iface).t != nil {
			return tuple{false, err}
		}
		return tuple{out.k == lStatus, iface{}}
	})
	reg(rp+"SetnxCtx", func(fr *frame, a []value) value {
		out, err := run(fr, a[1], lstr("SET"), lstr(a[2]), lstr(a[3]), lstr("NX"))
		if err.(iface).t != nil {
			return tuple{false, err}
		}
		return tuple{out.k == lStatus, iface{}}
	})
	delCmd := func(fr *frame, ctx value, keys []value) value {
		if len(keys) == 0 {
			return tuple{0, fr.i.run.newError("ERR wrong number of arguments for 'del' command")}
		}
		args := []luaVal{lstr("DEL")}
		for _, k := range keys {
			args = append(args, lstr(k))
		}
		out, err := run(fr, ctx, args...)
		if err.(iface).t != nil {
			return tuple{0, err}
		}
		return tuple{int(out.n.ival.Int64()), iface{}}
	}
	reg(rp+"DelCtx", func(fr *frame, a []value) value { return delCmd(fr, a[1], variadic(a[2])) })
	reg(rp+"Del", func(fr *frame, a []value) value { return delCmd(fr, nil, variadic(a[1])) })
	reg(rp+"ExistsCtx", func(fr *frame, a []value) value {
		out, err := run(fr, a[1], lstr("EXISTS"), lstr(a[2]))
		if err.(iface).t != nil {
			return tuple{false, err}
		}
		return tuple{out.n.ival.Sign() > 0, iface{}}
	})
	reg(rp+"ExpireCtx", func(fr *frame, a []value) value {
		r := fr.i.run
		t, _ := r.intTerm(a[3])
		_, err := run(fr, a[1], lstr("EXPIRE"), lstr(a[2]), luaVal{k: lNum, n: t})
		return err
	})
	rtTable["RedisFailAt"] = func(fr *frame, a []value) value {
		m := fr.i.run.redisModel()
		m.failAt = m.calls + int(fr.i.run.concreteInt(a[0]))
		m.failAtSet = true
		return nil
	}

	// ---- verifrt access to the model
	strArg := func(v value) value { return v }
	rtTable["RedisSetStr"] = func(fr *frame, a []value) value {
		r := fr.i.run
		m := r.redisModel()
		var exp value
		if !(isConcreteNeg(a[2])) {
			exp = binop(r, tokenADD, nil, m.nowMs(), a[2])
		}
		m.set(strArg(a[0]), luaVal{k: lStr, s: a[1]}, exp)
		return nil
	}
	rtTable["RedisSetInt"] = func(fr *frame, a []value) value {
		r := fr.i.run
		m := r.redisModel()
		var exp value
		if !(isConcreteNeg(a[2])) {
			exp = binop(r, tokenADD, nil, m.nowMs(), a[2])
		}
		t, _ := r.intTerm(a[1])
		m.set(strArg(a[0]), luaVal{k: lStr, n: t}, exp)
		return nil
	}
	rtTable["RedisGetStr"] = func(fr *frame, a []value) value {
		r := fr.i.run
		m := r.redisModel()
		e := m.find(a[0])
		if e == nil {
			return tuple{"", false}
		}
		l := &luaState{r: r, rm: m}
		return tuple{l.strValue(e.val), true}
	}
	rtTable["RedisGetInt"] = func(fr *frame, a []value) value {
		r := fr.i.run
		m := r.redisModel()
		e := m.find(a[0])
		if e == nil {
			return tuple{int64(0), false}
		}
		l := &luaState{r: r, rm: m}
		n, ok := l.toNumber(e.val)
		if !ok {
			return tuple{int64(0), false}
		}
		t := n.n
		if t.sort == SReal {
			t = r.tc.Floor(t)
		}
		return tuple{r.mkSymInt(t, types.Int64), true}
	}
	rtTable["RedisPTTL"] = func(fr *frame, a []value) value {
		r := fr.i.run
		m := r.redisModel()
		e := m.find(a[0])
		if e == nil {
			return int64(-2)
		}
		if e.expireAt == nil {
			return int64(-1)
		}
		return binop(r, tokenSUB, nil, e.expireAt, m.nowMs())
	}
	rtTable["RedisFail"] = func(fr *frame, a []value) value {
		fr.i.run.redisModel().failNext = a[0]
		return nil
	}
	rtTable["RedisCalls"] = func(fr *frame, a []value) value { return fr.i.run.redisModel().calls }
	rtTable["RedisScriptRuns"] = func(fr *frame, a []value) value { return fr.i.run.redisModel().scripts }
	rtTable["RedisWrites"] = func(fr *frame, a []value) value { return fr.i.run.redisModel().writes }
	rtTable["RedisPersistentWrites"] = func(fr *frame, a []value) value { return fr.i.run.redisModel().noTTLWrites }
	rtTable["RedisKeys"] = func(fr *frame, a []value) value {
		m := fr.i.run.redisModel()
		n := 0
		for _, e := range m.entries {
			if !e.dead {
				if m.find(e.key) != nil {
					n++
				}
			}
		}
		return n
	}
}

func isConcreteNeg(v value) bool {
	if _, ok := v.(symInt); ok {
		return false
	}
	return asInt64(v) < 0
}

var _ = ssa.Function{}
