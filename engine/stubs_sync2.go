package main

// sync.Cond: engine-native model. Wait registers the waiter before releasing L (no lost wake-up,
// as runtime_notifyListAdd precedes Unlock in the real implementation), parks until signalled and
// re-acquires L.

import (
	"go/types"
)

type condWaiter struct{ signalled bool }
type condState struct{ waiters []*condWaiter }

func (s *Sched) condvar(p *value) *condState {
	if c, ok := s.objs[p].(*condState); ok {
		return c
	}
	c := &condState{}
	s.objs[p] = c
	return c
}

func condLocker(fr *frame, p *value) iface {
	st := (*p).(structure)
	pt := fr.fn.Signature.Recv().Type().Underlying().(*types.Pointer).Elem().Underlying().(*types.Struct)
	for i := 0; i < pt.NumFields(); i++ {
		if pt.Field(i).Name() == "L" {
			return st[i].(iface)
		}
	}
	panic(unsupported{"sync.Cond without field L"})
}

func (r *Run) callIfaceMethod(fr *frame, x iface, name string, args ...value) value {
	if x.t == nil {
		panic(r.runtimePanic("invalid memory address or nil pointer dereference"))
	}
	m := r.findMethod(x.t, name)
	if m == nil {
		panic(unsupported{"method " + name + " not found on " + x.t.String()})
	}
	return call(fr.i, fr, 0, m, append([]value{x.v}, args...))
}

func init() {
	reg("(*sync.Cond).Wait", func(fr *frame, a []value) value {
		r := fr.i.run
		s := r.sched
		p := argPtr(a[0])
		c := s.condvar(p)
		L := condLocker(fr, p)
		w := &condWaiter{}
		c.waiters = append(c.waiters, w)
		r.callIfaceMethod(fr, L, "Unlock")
		s.yieldPred(fr, "Cond.Wait", c, func() bool { return w.signalled })
		r.callIfaceMethod(fr, L, "Lock")
		return nil
	})
	reg("(*sync.Cond).Signal", func(fr *frame, a []value) value {
		s := fr.i.run.sched
		c := s.condvar(argPtr(a[0]))
		s.visible(fr, c, "Cond.Signal")
		if len(c.waiters) > 0 {
			c.waiters[0].signalled = true
			c.waiters = c.waiters[1:]
		}
		return nil
	})
	reg("(*sync.Cond).Broadcast", func(fr *frame, a []value) value {
		s := fr.i.run.sched
		c := s.condvar(argPtr(a[0]))
		s.visible(fr, c, "Cond.Broadcast")
		for _, w := range c.waiters {
			w.signalled = true
		}
		c.waiters = nil
		return nil
	})
}

// ---- reflect: only ValueOf(x).Kind() and .Len() (what PeriodicalExecutor.hasTasks needs, DESIGN 2.4)

func reflKind(t types.Type) uint {
	if t == nil {
		return 0 // Invalid
	}
	switch u := t.Underlying().(type) {
	case *types.Basic:
		switch u.Kind() {
		case types.Bool:
			return 1
		case types.Int:
			return 2
		case types.Int8:
			return 3
		case types.Int16:
			return 4
		case types.Int32:
			return 5
		case types.Int64:
			return 6
		case types.Uint:
			return 7
		case types.Uint8:
			return 8
		case types.Uint16:
			return 9
		case types.Uint32:
			return 10
		case types.Uint64:
			return 11
		case types.Uintptr:
			return 12
		case types.Float32:
			return 13
		case types.Float64:
			return 14
		case types.Complex64:
			return 15
		case types.Complex128:
			return 16
		case types.String:
			return 24
		case types.UnsafePointer:
			return 26
		}
	case *types.Array:
		return 17
	case *types.Chan:
		return 18
	case *types.Signature:
		return 19
	case *types.Interface:
		return 20
	case *types.Map:
		return 21
	case *types.Pointer:
		return 22
	case *types.Slice:
		return 23
	case *types.Struct:
		return 25
	}
	panic(unsupported{"reflect.Kind of " + t.String()})
}

