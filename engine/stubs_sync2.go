package main

// sync.Cond: engine-native model. Wait registers the waiter before releasing L (no lost wake-up,
// as runtime_notifyListAdd precedes Unlock in the real implementation), parks until signalled and
// re-acquires L.

import (
	"go/types"
)

type condWaiter struct{ signalled bool }
type condState struct{ waiters []*condWaiter }

func (s *Sched) condvar(p *value) *condState {
	if c, ok := s.objs[p].(*condState); ok {
		return c
	}
	c := &condState{}
	s.objs[p] = c
	return c
}

func condLocker(fr *frame, p *value) iface {
	st := (*p).(structure)
	pt := fr.fn.Signature.Recv().Type().Underlying().(*types.Pointer).Elem().Underlying().(*types.Struct)
	for i := 0; i < pt.NumFields(); i++ {
		if pt.Field(i).Name() == "L" {
			return st[i].(iface)
		}
	}
	panic(unsupported{"sync.Cond without field L"})
}

func (r *Run) callIfaceMethod(fr *frame, x iface, name string, args ...value) value {
	if x.t == nil {
		panic(r.runtimePanic("invalid memory address or nil pointer dereference"))
	}
	m := r.findMethod(x.t, name)
	if m == nil {
		panic(unsupported{"method " + name + " not found on " + x.t.String()})
	}
	return call(fr.i, fr, 0, m, append([]value{x.v}, args...))
}

func init() {
	reg("(*sync.Cond).Wait", func(fr *frame, a []value) value {
		r := fr.i.run
		s := r.sched
		p := argPtr(a[0])
		c := s.condvar(p)
		L := condLocker(fr, p)
		w := &condWaiter{}
		c.waiters = append(c.waiters, w)
		r.callIfaceMethod(fr, L, "Unlock")
		s.yieldPred(fr, "Cond.Wait", c, func() bool { return w.signalled })
		r.callIfaceMethod(fr, L, "Lock")
		return nil
	})
	reg("(*sync.Cond).Signal", func(fr *frame, a []value) value {
		s := fr.i.run.sched
		c := s.condvar(argPtr(a[0]))
		s.visible(fr, c, "Cond.Signal")
		if len(c.waiters) > 0 {
			c.waiters[0].signalled = true
			c.waiters = c.waiters[1:]
		}
		return nil
	})
	reg("(*sync.Cond).Broadcast", func(fr *frame, a []value) value {
		s := fr.i.run.sched
		c := s.condvar(argPtr(a[0]))
		s.visible(fr, c, "Cond.Broadcast")
		for _, w := range c.waiters {
			w.signalled = true
		}
		c.waiters = nil
		return nil
	})
}
