package main

// The stub table (DESIGN 2.4): functions executed by an engine-native model instead of their SSA
// body. Every stub that is actually hit during a check is listed in that check's evidence.

import (
	"fmt"
	"go/types"
	"math"
	"math/big"
	"sort"
	"strconv"
	"strings"
	"unsafe"

	"golang.org/x/tools/go/ssa"
)

type stubFn func(fr *frame, args []value) value

var stubTable = map[string]stubFn{}

// packages whose functions all return zero values (logging, metrics, tracing, process hooks)
var zeroPkgs = []string{
	"github.com/zeromicro/go-zero/core/logx",
	"github.com/zeromicro/go-zero/core/logc",
	"github.com/zeromicro/go-zero/core/metric",
	"github.com/zeromicro/go-zero/core/trace",
	"github.com/zeromicro/go-zero/core/prometheus",
	"github.com/zeromicro/go-zero/core/proc",
	"github.com/zeromicro/go-zero/internal/trace",
	"go.opentelemetry.io/",
	"github.com/prometheus/",
	"log",
}

var zeroFuncs = map[string]bool{
	"github.com/zeromicro/go-zero/core/stat.Report":                   true,
	"github.com/zeromicro/go-zero/core/stat.NewMetrics":               true,
	"(*github.com/zeromicro/go-zero/core/stat.Metrics).Add":           true,
	"(*github.com/zeromicro/go-zero/core/stat.Metrics).AddDrop":       true,
	"(*github.com/zeromicro/go-zero/core/stat.Metrics).SetName":       true,
	"github.com/zeromicro/go-zero/core/stat.NewSheddingStat":          true,
	"(*github.com/zeromicro/go-zero/core/stat.SheddingStat).IncrementTotal": true,
	"(*github.com/zeromicro/go-zero/core/stat.SheddingStat).IncrementPass":  true,
	"(*github.com/zeromicro/go-zero/core/stat.SheddingStat).IncrementDrop":  true,
	"runtime.SetFinalizer": true,
	"runtime.KeepAlive":    true,
	"runtime.GC":           true,
	"runtime.Gosched":      true,
	"os.Exit":              false,
}

func (w *Worker) lookupStub(fn *ssa.Function) stubFn {
	if st, ok := w.stubCache[fn]; ok {
		return st
	}
	var st stubFn
	name := fn.String()
	if h, ok := w.harnessStubs[name]; ok {
		target := h
		st = func(fr *frame, args []value) value {
			return callSSA(fr.i, fr.caller, 0, target, args, nil)
		}
		w.noteStub(name + " => " + target.String() + " (harness)")
	} else if f, ok := stubTable[name]; ok {
		st = func(fr *frame, args []value) value {
			w.noteStub(name)
			return f(fr, args)
		}
	} else if strings.HasSuffix(pkgPathOf(fn), "internal/verifrt") {
		if f, ok := rtTable[fn.Name()]; ok {
			st = f
		} else if fn.Blocks == nil {
			st = func(fr *frame, args []value) value {
				panic(unsupported{"verifrt." + fn.Name() + " has no engine implementation"})
			}
		}
	} else if isReflectFunc(fn) && !reflectFromSource[name] && fn.Name() != "init" && !strings.HasPrefix(fn.Name(), "init#") {
		st = func(fr *frame, args []value) value {
			panic(unsupported{"reflect model: " + name + " is not modelled"})
		}
	} else if zeroFuncs[name] || isZeroPkg(fn) {
		res := fn.Signature.Results()
		st = func(fr *frame, args []value) value {
			w.noteStub(name + " (no-op)")
			if res.Len() == 0 {
				return nil
			}
			return zero(res)
		}
	} else if orig := fn.Origin(); orig != nil && orig != fn {
		// instantiated generic: look up by origin name
		oname := orig.String()
		if f, ok := stubTable[oname]; ok {
			st = func(fr *frame, args []value) value {
				w.noteStub(oname)
				return f(fr, args)
			}
		}
	}
	w.stubCache[fn] = st
	return st
}

func pkgPathOf(fn *ssa.Function) string {
	if fn.Pkg != nil {
		return fn.Pkg.Pkg.Path()
	}
	if o := fn.Object(); o != nil && o.Pkg() != nil {
		return o.Pkg().Path()
	}
	if fn.Origin() != nil && fn.Origin().Pkg != nil {
		return fn.Origin().Pkg.Pkg.Path()
	}
	return ""
}

func isZeroPkg(fn *ssa.Function) bool { return isZeroPkgPath(pkgPathOf(fn)) }

func isZeroPkgPath(p string) bool {
	for _, z := range zeroPkgs {
		if p == z || strings.HasPrefix(p, z+"/") || (strings.HasSuffix(z, "/") && strings.HasPrefix(p, z)) {
			return true
		}
	}
	return false
}

func reg(name string, f stubFn) { stubTable[name] = f }

func argPtr(v value) *value {
	p, _ := v.(*value)
	return p
}

func init() {
	// ---- sync
	reg("(*sync.Mutex).Lock", func(fr *frame, a []value) value {
		s := fr.i.run.sched
		m := s.mutex(argPtr(a[0]))
		s.yieldPred(fr, "Mutex.Lock", m, func() bool { return !m.locked && m.readers == 0 })
		m.locked = true
		return nil
	})
	reg("(*sync.Mutex).TryLock", func(fr *frame, a []value) value {
		s := fr.i.run.sched
		m := s.mutex(argPtr(a[0]))
		s.yield(fr.g, &pendingOp{kind: opYield, obj: m, desc: "Mutex.TryLock"})
		if m.locked {
			return false
		}
		m.locked = true
		return true
	})
	reg("(*sync.Mutex).Unlock", func(fr *frame, a []value) value {
		m := fr.i.run.sched.mutex(argPtr(a[0]))
		fr.i.run.sched.visible(fr, m, "Mutex.Unlock")
		if !m.locked {
			panic(targetPanic{v: iface{t: fr.i.runtimeErrorString, v: "sync: unlock of unlocked mutex"}, runtime: true})
		}
		m.locked = false
		return nil
	})
	reg("(*sync.RWMutex).Lock", func(fr *frame, a []value) value {
		s := fr.i.run.sched
		m := s.mutex(argPtr(a[0]))
		s.yieldPred(fr, "RWMutex.Lock", m, func() bool { return !m.locked && m.readers == 0 })
		m.locked = true
		return nil
	})
	reg("(*sync.RWMutex).Unlock", func(fr *frame, a []value) value {
		m := fr.i.run.sched.mutex(argPtr(a[0]))
		fr.i.run.sched.visible(fr, m, "RWMutex.Unlock")
		if !m.locked {
			panic(targetPanic{v: iface{t: fr.i.runtimeErrorString, v: "sync: Unlock of unlocked RWMutex"}, runtime: true})
		}
		m.locked = false
		return nil
	})
	reg("(*sync.RWMutex).RLock", func(fr *frame, a []value) value {
		s := fr.i.run.sched
		m := s.mutex(argPtr(a[0]))
		s.yieldPred(fr, "RWMutex.RLock", m, func() bool { return !m.locked })
		m.readers++
		return nil
	})
	reg("(*sync.RWMutex).RUnlock", func(fr *frame, a []value) value {
		m := fr.i.run.sched.mutex(argPtr(a[0]))
		fr.i.run.sched.visible(fr, m, "RWMutex.RUnlock")
		if m.readers <= 0 {
			panic(targetPanic{v: iface{t: fr.i.runtimeErrorString, v: "sync: RUnlock of unlocked RWMutex"}, runtime: true})
		}
		m.readers--
		return nil
	})
	reg("(*sync.WaitGroup).Add", func(fr *frame, a []value) value {
		r := fr.i.run
		wg := r.sched.waitgroup(argPtr(a[0]))
		r.sched.visible(fr, wg, "WaitGroup.Add")
		wg.n += r.concreteInt(a[1])
		if wg.n < 0 {
			panic(targetPanic{v: iface{t: types.Typ[types.String], v: "sync: negative WaitGroup counter"}})
		}
		if wg.n == 0 {
			wg.releaseAll()
		}
		return nil
	})
	reg("(*sync.WaitGroup).Done", func(fr *frame, a []value) value {
		wg := fr.i.run.sched.waitgroup(argPtr(a[0]))
		fr.i.run.sched.visible(fr, wg, "WaitGroup.Done")
		wg.n--
		if wg.n < 0 {
			panic(targetPanic{v: iface{t: types.Typ[types.String], v: "sync: negative WaitGroup counter"}})
		}
		if wg.n == 0 {
			wg.releaseAll()
		}
		return nil
	})
	reg("(*sync.WaitGroup).Wait", func(fr *frame, a []value) value {
		s := fr.i.run.sched
		wg := s.waitgroup(argPtr(a[0]))
		t := &wgTicket{}
		wg.tickets = append(wg.tickets, t)
		s.yieldPred(fr, "WaitGroup.Wait", wg, func() bool { return t.released || wg.n == 0 })
		for i, x := range wg.tickets {
			if x == t {
				wg.tickets = append(wg.tickets[:i:i], wg.tickets[i+1:]...)
				break
			}
		}
		if t.released && wg.n != 0 {
			panic(targetPanic{v: iface{t: types.Typ[types.String], v: "sync: WaitGroup is reused before previous Wait has returned"}})
		}
		return nil
	})
	reg("(*sync.Pool).Get", func(fr *frame, a []value) value {
		p := argPtr(a[0])
		st := (*p).(structure)
		// field "New" is the last field
		nf := st[len(st)-1]
		if f, ok := nf.(*ssa.Function); ok && f == nil {
			return iface{}
		}
		if nf == nil {
			return iface{}
		}
		return call(fr.i, fr, 0, nf, nil)
	})
	reg("(*sync.Pool).Put", func(fr *frame, a []value) value { return nil })

	// ---- sync/atomic package-level functions
	for _, k := range []string{"Int32", "Int64", "Uint32", "Uint64", "Uintptr"} {
		k := k
		reg("sync/atomic.Load"+k, func(fr *frame, a []value) value {
			fr.i.run.sched.atomicLoadPoint(fr, a[0])
			return *argPtr(a[0])
		})
		reg("sync/atomic.Store"+k, func(fr *frame, a []value) value {
			fr.i.run.sched.atomicPoint(fr, a[0])
			*argPtr(a[0]) = a[1]
			return nil
		})
		reg("sync/atomic.Add"+k, func(fr *frame, a []value) value {
			r := fr.i.run
			r.sched.atomicPoint(fr, a[0])
			p := argPtr(a[0])
			*p = binop(r, tokenADD, nil, *p, a[1])
			return *p
		})
		reg("sync/atomic.Swap"+k, func(fr *frame, a []value) value {
			fr.i.run.sched.atomicPoint(fr, a[0])
			p := argPtr(a[0])
			old := *p
			*p = a[1]
			return old
		})
		reg("sync/atomic.CompareAndSwap"+k, func(fr *frame, a []value) value {
			r := fr.i.run
			r.sched.atomicPoint(fr, a[0])
			p := argPtr(a[0])
			if r.truth(r.eqv(nil, *p, a[1])) {
				*p = a[2]
				return true
			}
			return false
		})
	}
	reg("sync/atomic.LoadPointer", func(fr *frame, a []value) value {
		fr.i.run.sched.atomicLoadPoint(fr, a[0])
		return *argPtr(a[0])
	})
	reg("sync/atomic.StorePointer", func(fr *frame, a []value) value {
		fr.i.run.sched.atomicPoint(fr, a[0])
		*argPtr(a[0]) = a[1]
		return nil
	})
	reg("sync/atomic.SwapPointer", func(fr *frame, a []value) value {
		fr.i.run.sched.atomicPoint(fr, a[0])
		p := argPtr(a[0])
		old := *p
		*p = a[1]
		return old
	})
	reg("sync/atomic.CompareAndSwapPointer", func(fr *frame, a []value) value {
		fr.i.run.sched.atomicPoint(fr, a[0])
		p := argPtr(a[0])
		if (*p).(unsafe.Pointer) == a[1].(unsafe.Pointer) {
			*p = a[2]
			return true
		}
		return false
	})
	// atomic.Value: the stored interface lives in a side table
	reg("(*sync/atomic.Value).Load", func(fr *frame, a []value) value {
		s := fr.i.run.sched
		s.atomicLoadPoint(fr, a[0])
		if v, ok := s.objs[argPtr(a[0])].(iface); ok {
			return v
		}
		return iface{}
	})
	reg("(*sync/atomic.Value).Store", func(fr *frame, a []value) value {
		s := fr.i.run.sched
		s.atomicPoint(fr, a[0])
		v := a[1].(iface)
		if v.t == nil {
			panic(targetPanic{v: iface{t: types.Typ[types.String], v: "sync/atomic: store of nil value into Value"}})
		}
		if old, ok := s.objs[argPtr(a[0])].(iface); ok && !types.Identical(old.t, v.t) {
			panic(targetPanic{v: iface{t: types.Typ[types.String], v: "sync/atomic: store of inconsistently typed value into Value"}})
		}
		s.objs[argPtr(a[0])] = v
		return nil
	})
	reg("(*sync/atomic.Value).Swap", func(fr *frame, a []value) value {
		s := fr.i.run.sched
		s.atomicPoint(fr, a[0])
		old, _ := s.objs[argPtr(a[0])].(iface)
		s.objs[argPtr(a[0])] = a[1].(iface)
		return old
	})
	reg("(*sync/atomic.Value).CompareAndSwap", func(fr *frame, a []value) value {
		r := fr.i.run
		s := r.sched
		s.atomicPoint(fr, a[0])
		old, _ := s.objs[argPtr(a[0])].(iface)
		if r.truth(r.eqv(nil, old, a[1].(iface))) {
			s.objs[argPtr(a[0])] = a[2].(iface)
			return true
		}
		return false
	})

	// ---- internal helpers
	reg("internal/abi.NoEscape", func(fr *frame, a []value) value { return a[0] })
	reg("internal/bytealg.IndexByteString", func(fr *frame, a []value) value {
		return strings.IndexByte(concreteStr(a[0]), a[1].(byte))
	})
	reg("internal/bytealg.IndexByte", func(fr *frame, a []value) value {
		b := a[0].([]value)
		for i, x := range b {
			if fr.i.run.truth(fr.i.run.eqv(nil, x, a[1])) {
				return i
			}
		}
		return -1
	})
	reg("internal/bytealg.CountString", func(fr *frame, a []value) value {
		return strings.Count(concreteStr(a[0]), string([]byte{a[1].(byte)}))
	})
	reg("internal/bytealg.IndexString", func(fr *frame, a []value) value {
		return strings.Index(concreteStr(a[0]), concreteStr(a[1]))
	})
	reg("internal/bytealg.Equal", func(fr *frame, a []value) value {
		x, y := a[0].([]value), a[1].([]value)
		if len(x) != len(y) {
			return false
		}
		r := fr.i.run
		for i := range x {
			if !r.truth(r.eqv(nil, x[i], y[i])) {
				return false
			}
		}
		return true
	})
	reg("internal/bytealg.MakeNoZero", func(fr *frame, a []value) value {
		n := fr.i.run.concreteInt(a[0])
		s := make([]value, n)
		for i := range s {
			s[i] = byte(0)
		}
		return s
	})
	reg("internal/stringslite.Index", func(fr *frame, a []value) value {
		return strings.Index(concreteStr(a[0]), concreteStr(a[1]))
	})
	reg("strings.Index", func(fr *frame, a []value) value {
		return strings.Index(concreteStr(a[0]), concreteStr(a[1]))
	})
	reg("strings.IndexByte", func(fr *frame, a []value) value {
		return strings.IndexByte(concreteStr(a[0]), a[1].(byte))
	})
	reg("strings.Count", func(fr *frame, a []value) value {
		return strings.Count(concreteStr(a[0]), concreteStr(a[1]))
	})
	reg("strings.EqualFold", func(fr *frame, a []value) value {
		return strings.EqualFold(concreteStr(a[0]), concreteStr(a[1]))
	})
	reg("strings.ToLower", func(fr *frame, a []value) value { return strings.ToLower(concreteStr(a[0])) })
	reg("strings.ToUpper", func(fr *frame, a []value) value { return strings.ToUpper(concreteStr(a[0])) })
	reg("strings.TrimSpace", func(fr *frame, a []value) value { return strings.TrimSpace(concreteStr(a[0])) })
	reg("strings.Contains", func(fr *frame, a []value) value {
		return strings.Contains(concreteStr(a[0]), concreteStr(a[1]))
	})
	reg("strings.HasPrefix", func(fr *frame, a []value) value {
		return strings.HasPrefix(concreteStr(a[0]), concreteStr(a[1]))
	})
	reg("strings.HasSuffix", func(fr *frame, a []value) value {
		return strings.HasSuffix(concreteStr(a[0]), concreteStr(a[1]))
	})
	reg("strings.Join", func(fr *frame, a []value) value {
		parts := a[0].([]value)
		r := fr.i.run
		var acc value = ""
		for i, p := range parts {
			if i > 0 {
				acc = r.concatStr(acc, a[1])
			}
			acc = r.concatStr(acc, p)
		}
		return acc
	})
	reg("(*strings.Builder).String", func(fr *frame, a []value) value {
		st := (*argPtr(a[0])).(structure)
		return bytesToString(st[1].([]value))
	})
	reg("(*strings.Builder).copyCheck", func(fr *frame, a []value) value { return nil })
	reg("strings.Clone", func(fr *frame, a []value) value { return a[0] })

	// ---- strconv (concrete operands)
	reg("strconv.Itoa", func(fr *frame, a []value) value {
		if s, ok := a[0].(symInt); ok {
			return fr.i.run.ufStr("itoa", s.t)
		}
		return strconv.Itoa(a[0].(int))
	})
	reg("strconv.FormatInt", func(fr *frame, a []value) value {
		if s, ok := a[0].(symInt); ok {
			return fr.i.run.ufStr("itoa", s.t)
		}
		return strconv.FormatInt(a[0].(int64), a[1].(int))
	})
	reg("strconv.Atoi", func(fr *frame, a []value) value {
		n, err := strconv.Atoi(concreteStr(a[0]))
		return tuple{n, fr.i.run.hostError(err)}
	})
	reg("strconv.ParseInt", func(fr *frame, a []value) value {
		n, err := strconv.ParseInt(concreteStr(a[0]), a[1].(int), a[2].(int))
		return tuple{n, fr.i.run.hostError(err)}
	})
	reg("strconv.ParseUint", func(fr *frame, a []value) value {
		n, err := strconv.ParseUint(concreteStr(a[0]), a[1].(int), a[2].(int))
		return tuple{n, fr.i.run.hostError(err)}
	})
	reg("strconv.ParseFloat", func(fr *frame, a []value) value {
		n, err := strconv.ParseFloat(concreteStr(a[0]), a[1].(int))
		return tuple{n, fr.i.run.hostError(err)}
	})
	reg("strconv.ParseBool", func(fr *frame, a []value) value {
		n, err := strconv.ParseBool(concreteStr(a[0]))
		return tuple{n, fr.i.run.hostError(err)}
	})
	reg("strconv.Quote", func(fr *frame, a []value) value { return strconv.Quote(concreteStr(a[0])) })

	// ---- math
	reg("math.Ceil", func(fr *frame, a []value) value {
		r := fr.i.run
		if f, ok := a[0].(symFloat); ok {
			tc := r.tc
			if i, c := r.intOverConst(f.t); i != nil {
				// Ceil(fl(i / c)) = (i + c - 1) div c   (see intOverConst)
				return r.mkSymFloat(tc.ToReal(tc.FDiv(tc.Add(i, tc.Int(new(big.Int).Sub(c, big.NewInt(1)))), c)))
			}
			n := tc.Neg(tc.Floor(tc.RBin("-", tc.Real(big.NewRat(0, 1)), f.t)))
			return r.mkSymFloat(tc.Fl(tc.ToReal(n)))
		}
		return math.Ceil(a[0].(float64))
	})
	reg("math.Floor", func(fr *frame, a []value) value {
		r := fr.i.run
		if f, ok := a[0].(symFloat); ok {
			if i, c := r.intOverConst(f.t); i != nil {
				return r.mkSymFloat(r.tc.ToReal(r.tc.FDiv(i, c)))
			}
			return r.mkSymFloat(r.tc.Fl(r.tc.ToReal(r.tc.Floor(f.t))))
		}
		return math.Floor(a[0].(float64))
	})
	reg("math.Trunc", func(fr *frame, a []value) value {
		r := fr.i.run
		if f, ok := a[0].(symFloat); ok {
			return r.mkSymFloat(r.tc.Fl(r.tc.ToReal(r.tc.Trunc(f.t))))
		}
		return math.Trunc(a[0].(float64))
	})
	reg("math.Abs", func(fr *frame, a []value) value {
		r := fr.i.run
		if f, ok := a[0].(symFloat); ok {
			tc := r.tc
			z := tc.Real(big.NewRat(0, 1))
			return r.mkSymFloat(tc.Ite(tc.Le(z, f.t), f.t, tc.RBin("-", z, f.t)))
		}
		return math.Abs(a[0].(float64))
	})
	reg("math.Max", func(fr *frame, a []value) value {
		r := fr.i.run
		if isSym(a[0]) || isSym(a[1]) {
			if _, ok := a[0].(symFP); ok {
				panic(unsupported{"math.Max on exact-FP value"})
			}
			x, y := r.floatTerm(a[0]), r.floatTerm(a[1])
			return r.mkSymFloat(r.tc.Ite(r.tc.Le(y, x), x, y))
		}
		return math.Max(a[0].(float64), a[1].(float64))
	})
	reg("math.Min", func(fr *frame, a []value) value {
		r := fr.i.run
		if isSym(a[0]) || isSym(a[1]) {
			x, y := r.floatTerm(a[0]), r.floatTerm(a[1])
			return r.mkSymFloat(r.tc.Ite(r.tc.Le(x, y), x, y))
		}
		return math.Min(a[0].(float64), a[1].(float64))
	})
	reg("math.IsNaN", func(fr *frame, a []value) value {
		r := fr.i.run
		switch f := a[0].(type) {
		case symFloat:
			return false // E2 ranges over finite values only (stated assumption)
		case symFP:
			return r.mkSymBool(r.tc.Raw(SBool, "(fp.isNaN $0)", f.t))
		}
		return math.IsNaN(a[0].(float64))
	})
	reg("math.IsInf", func(fr *frame, a []value) value {
		r := fr.i.run
		switch f := a[0].(type) {
		case symFloat:
			return false
		case symFP:
			sign := r.concreteInt(a[1])
			inf := r.tc.Raw(SBool, "(fp.isInfinite $0)", f.t)
			if sign > 0 {
				inf = r.tc.And(inf, r.tc.Raw(SBool, "(fp.isPositive $0)", f.t))
			} else if sign < 0 {
				inf = r.tc.And(inf, r.tc.Raw(SBool, "(fp.isNegative $0)", f.t))
			}
			return r.mkSymBool(inf)
		}
		return math.IsInf(a[0].(float64), a[1].(int))
	})
	reg("math.Inf", func(fr *frame, a []value) value { return math.Inf(a[0].(int)) })
	reg("math.NaN", func(fr *frame, a []value) value { return math.NaN() })
	reg("math.Float64bits", func(fr *frame, a []value) value { return math.Float64bits(a[0].(float64)) })
	reg("math.Float64frombits", func(fr *frame, a []value) value { return math.Float64frombits(a[0].(uint64)) })
	reg("math.Float32bits", func(fr *frame, a []value) value { return math.Float32bits(a[0].(float32)) })
	reg("math.Float32frombits", func(fr *frame, a []value) value { return math.Float32frombits(a[0].(uint32)) })
	reg("math.Sqrt", func(fr *frame, a []value) value { return math.Sqrt(a[0].(float64)) })
	reg("math.Pow", func(fr *frame, a []value) value { return math.Pow(a[0].(float64), a[1].(float64)) })
	reg("math.Log", func(fr *frame, a []value) value { return math.Log(a[0].(float64)) })
	reg("math.Exp", func(fr *frame, a []value) value { return math.Exp(a[0].(float64)) })
	reg("math.Round", func(fr *frame, a []value) value {
		r := fr.i.run
		if f, ok := a[0].(symFloat); ok {
			tc := r.tc
			// Round(fl(i / c)) for a non-negative integer i < 2^52 and an integer constant 0 < c <= 2^20 is
			// computed in integers as (2i + c) div 2c: the quotient's distance from a .5 boundary is 0 or
			// at least 1/(2c), far more than the 2^-53 relative rounding error of the division.
			if i, c := r.intOverConst(f.t); i != nil {
				n := tc.Add(tc.Mul(i, tc.Int64(2)), tc.Int(c))
				return r.mkSymFloat(tc.ToReal(tc.FDiv(n, new(big.Int).Mul(c, big.NewInt(2)))))
			}
			z, half := tc.Real(big.NewRat(0, 1)), tc.Real(big.NewRat(1, 2))
			up := tc.Floor(tc.RBin("+", f.t, half))
			dn := tc.Neg(tc.Floor(tc.RBin("+", tc.RBin("-", z, f.t), half)))
			return r.mkSymFloat(tc.Fl(tc.ToReal(tc.Ite(tc.Le(z, f.t), up, dn))))
		}
		return math.Round(a[0].(float64))
	})
	reg("math.Mod", func(fr *frame, a []value) value { return math.Mod(a[0].(float64), a[1].(float64)) })

	// ---- sort (oblivious to element representation: user-supplied less is interpreted)
	reg("sort.Slice", func(fr *frame, a []value) value {
		sl := a[0].(iface).v.([]value)
		less := a[1]
		r := fr.i.run
		if _, allInts := scalarIntKind(sl); allInts && len(sl) > 1 && len(sl) <= 12 {
			anySym := false
			for _, e := range sl {
				if isSym(e) {
					anySym = true
				}
			}
			if anySym {
				// oblivious compare-exchange network (bubble network): the user's less is evaluated
				// symbolically and the exchange is an ite, so sorting symbolic keys does not fork
				oblivious := true
				for i := 0; i < len(sl) && oblivious; i++ {
					for j := 0; j+1 < len(sl)-i; j++ {
						c := call(fr.i, fr, 0, less, []value{j + 1, j})
						switch cb := c.(type) {
						case bool:
							if cb {
								sl[j], sl[j+1] = sl[j+1], sl[j]
							}
						case symBool:
							x, y := sl[j], sl[j+1]
							sl[j], sl[j+1] = r.itev(cb, y, x), r.itev(cb, x, y)
						default:
							oblivious = false
						}
					}
				}
				if oblivious {
					return nil
				}
			}
		}
		// insertion sort: stable, deterministic, O(n^2) calls of less
		for i := 1; i < len(sl); i++ {
			for j := i; j > 0; j-- {
				if r.truth(call(fr.i, fr, 0, less, []value{j, j - 1})) {
					sl[j], sl[j-1] = sl[j-1], sl[j]
				} else {
					break
				}
			}
		}
		return nil
	})
	stubTable["sort.SliceStable"] = stubTable["sort.Slice"]
	reg("sort.Strings", func(fr *frame, a []value) value {
		sl := a[0].([]value)
		ss := make([]string, len(sl))
		for i := range sl {
			ss[i] = concreteStr(sl[i])
		}
		sort.Strings(ss)
		for i := range sl {
			sl[i] = ss[i]
		}
		return nil
	})

	// ---- runtime
	reg("runtime.NumCPU", func(fr *frame, a []value) value { return 16 })
	reg("runtime.GOMAXPROCS", func(fr *frame, a []value) value { return 16 })
	reg("runtime.NumGoroutine", func(fr *frame, a []value) value {
		n := 0
		for _, g := range fr.i.run.sched.gs {
			if !g.done {
				n++
			}
		}
		return n
	})
	reg("runtime/debug.Stack", func(fr *frame, a []value) value { return []value(nil) })
	reg("runtime.Stack", func(fr *frame, a []value) value { return 0 })
	reg("runtime.Caller", func(fr *frame, a []value) value { return tuple{uintptr(0), "", 0, false} })
	reg("runtime.Goexit", func(fr *frame, a []value) value {
		panic(unsupported{"runtime.Goexit"})
	})
	reg("os.Getenv", func(fr *frame, a []value) value { return "" })
	reg("os.LookupEnv", func(fr *frame, a []value) value { return tuple{"", false} })
	reg("os.Getpid", func(fr *frame, a []value) value { return 4242 })
	reg("os.Hostname", func(fr *frame, a []value) value { return tuple{"verifhost", iface{}} })
}


func concreteStr(v value) string {
	switch s := v.(type) {
	case string:
		return s
	case symBytesStr:
		b := make([]byte, len(s.b))
		for i, x := range s.b {
			c, ok := x.(byte)
			if !ok {
				panic(unsupported{"string operation needs concrete bytes"})
			}
			b[i] = c
		}
		return string(b)
	case symStr:
		panic(unsupported{"string operation on an atom string (only ==, != and concatenation are modelled)"})
	}
	panic(fmt.Sprintf("concreteStr of %T", v))
}

func (s *Sched) atomicPoint(fr *frame, addr value) {
	if len(s.gs) > 1 {
		s.yield(fr.g, &pendingOp{kind: opYield, obj: addr, desc: "atomic"})
	}
}

func (s *Sched) atomicLoadPoint(fr *frame, addr value) {
	if len(s.gs) > 1 {
		s.yield(fr.g, &pendingOp{kind: opYield, obj: addr, desc: "atomic load", readOnly: true})
	}
}

// visible marks a never-blocking synchronisation operation as a scheduling point of its own, so
// that every transition consists of exactly one visible operation (needed for sleep sets).
func (s *Sched) visible(fr *frame, obj interface{}, desc string) {
	if len(s.gs) > 1 {
		s.yield(fr.g, &pendingOp{kind: opYield, obj: obj, desc: desc})
	}
}

// hostError converts a host error into an interpreted error value (opaque *errors.errorString).
func (r *Run) hostError(err error) value {
	if err == nil {
		return iface{}
	}
	return r.newError(err.Error())
}

// newError builds the value errors.New(msg) would return.
func (r *Run) newError(msg value) value {
	pkg := r.interp.prog.ImportedPackage("errors")
	if pkg == nil {
		panic(unsupported{"package errors not loaded"})
	}
	t := pkg.Type("errorString").Type()
	var cell value = structure{msg}
	return iface{t: types.NewPointer(t), v: &cell}
}

// ufStr makes an atom string that is an uninterpreted function of an integer term (e.g. Itoa).
func (r *Run) ufStr(fn string, t *Term) value {
	return symStr{r.tc.Raw(SInt, "("+fn+" $0)", t)}
}

func (r *Run) concatStr(a, b value) value {
	if isSym(a) || isSym(b) {
		return r.strConcat(a, b)
	}
	return binop(r, tokenADD, nil, a, b)
}

// intOverConst recognises float quotients of an integer by a positive integer constant for which
// Floor/Ceil/Round can be computed exactly in integers:
//   (a) fl(to_real(i) / c) with 0 <= i < 2^52: one rounding, error < 1/(2c), while the quotient is an
//       integer or half-integer (exactly representable) or at least 1/(2c) away from both;
//   (b) time.Duration.Seconds(): fl(to_real(d div c) + fl(to_real(d mod c) / c)) with c = 10^9 and
//       0 <= d < 2^52 ns (52 days): two roundings, total error < (d/c + 2) * 2^-53 < 1/(2c).
// The range condition is discharged by the solver on the current path (no fork); if it cannot be
// shown the generic encoding is used.
func (r *Run) intOverConst(q *Term) (*Term, *big.Int) {
	if q.op == "fl" {
		q = q.args[0]
	}
	var i *Term
	var c *big.Int
	isPosIntConst := func(t *Term) *big.Int {
		if t.isCon && t.sort == SReal && t.rval.IsInt() && t.rval.Sign() > 0 {
			return t.rval.Num()
		}
		if t.isCon && t.sort == SInt && t.ival.Sign() > 0 {
			return t.ival
		}
		return nil
	}
	switch {
	case q.op == "/" && len(q.args) == 2 && q.args[0].op == "to_real":
		if c = isPosIntConst(q.args[1]); c != nil {
			i = q.args[0].args[0]
		}
	case q.op == "+" && len(q.args) == 2:
		a, b := q.args[0], q.args[1]
		if b.op == "to_real" {
			a, b = b, a
		}
		if b.op == "fl" {
			b = b.args[0]
		}
		if a.op == "to_real" && a.args[0].op == "div" && b.op == "/" && b.args[0].op == "to_real" && b.args[0].args[0].op == "mod" {
			dv, md := a.args[0], b.args[0].args[0]
			c1, c2, c3 := isPosIntConst(dv.args[1]), isPosIntConst(md.args[1]), isPosIntConst(b.args[1])
			if c1 != nil && c2 != nil && c3 != nil && c1.Cmp(c2) == 0 && c1.Cmp(c3) == 0 && dv.args[0] == md.args[0] && c1.Cmp(big.NewInt(1000000000)) == 0 {
				i, c = dv.args[0], c1
			}
		}
	}
	if i == nil || c.Cmp(new(big.Int).Lsh(big.NewInt(1), 40)) > 0 {
		return nil, nil
	}
	lim := new(big.Int).Lsh(big.NewInt(1), 52)
	if i.lo != nil && i.lo.Sign() >= 0 && i.hi != nil && i.hi.Cmp(lim) < 0 {
		return i, c
	}
	tc := r.tc
	if r.concrete == nil && r.mustHoldQuiet(tc.And(tc.Le(tc.Int64(0), i), tc.Lt(i, tc.Int(lim)))) {
		return i, c
	}
	return nil, nil
}
