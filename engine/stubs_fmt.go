package main

// fmt / errors stubs: formatting is executed natively on converted values (formatting is never the
// subject of a property); error wrapping (%w, errors.Is/As/Unwrap) keeps its exact semantics.

import (
	"fmt"
	"go/types"
	"strings"

	"golang.org/x/tools/go/ssa"
)

// hostArg converts an interpreter value to something fmt can print; errors and Stringers are
// rendered by calling their interpreted methods.
func (r *Run) hostArg(fr *frame, v value) interface{} {
	switch x := v.(type) {
	case iface:
		if x.t == nil {
			return nil
		}
		if m := r.findMethod(x.t, "Error"); m != nil && m.Signature.Params().Len() == 0 {
			res := call(fr.i, fr, 0, m, []value{x.v})
			return r.hostArg(fr, res)
		}
		if m := r.findMethod(x.t, "String"); m != nil && m.Signature.Params().Len() == 0 && m.Signature.Results().Len() == 1 {
			res := call(fr.i, fr, 0, m, []value{x.v})
			return r.hostArg(fr, res)
		}
		return r.hostArg(fr, x.v)
	case bool, int, int8, int16, int32, int64, uint, uint8, uint16, uint32, uint64, uintptr, float32, float64, string, complex64, complex128:
		return x
	case symInt, symBool, symFloat, symStr, symFP:
		return "<symbolic>"
	case symBytesStr:
		return "<symbolic bytes>"
	case nil:
		return nil
	case []value:
		out := make([]interface{}, len(x))
		allBytes := len(x) > 0
		for i, e := range x {
			out[i] = r.hostArg(fr, e)
			if _, ok := out[i].(uint8); !ok {
				allBytes = false
			}
		}
		if allBytes {
			b := make([]byte, len(x))
			for i := range out {
				b[i] = out[i].(uint8)
			}
			return b
		}
		return out
	}
	return toString(v)
}

func (r *Run) findMethod(t types.Type, name string) *ssa.Function {
	ms := r.interp.prog.MethodSets.MethodSet(t)
	for i := 0; i < ms.Len(); i++ {
		sel := ms.At(i)
		if sel.Obj().Name() == name && sel.Obj().Exported() {
			return r.interp.prog.MethodValue(sel)
		}
	}
	return nil
}

func (r *Run) sprintf(fr *frame, format value, args []value) value {
	fs, ok := format.(string)
	if !ok {
		return r.opaqueStr("fmt")
	}
	hs := make([]interface{}, len(args))
	sym := false
	for i, a := range args {
		hs[i] = r.hostArg(fr, a)
		if s, ok := hs[i].(string); ok && strings.HasPrefix(s, "<symbolic") {
			sym = true
		}
	}
	if sym {
		// result depends on symbolic data: an opaque non-empty string, functionally determined by its inputs
		return r.opaqueStrOf(fs, args)
	}
	return fmt.Sprintf(strings.ReplaceAll(fs, "%w", "%v"), hs...)
}

// opaqueStr returns a fresh atom (an unknown string).
func (r *Run) opaqueStr(label string) value {
	t := r.newNondet("opaque."+label, SInt, nil, nil)
	if t.isCon {
		return "opaque"
	}
	return symStr{t}
}

// opaqueStrOf: formatted text over symbolic operands. Atoms and symbolic ints are folded through the
// strcat UF so that equal inputs give equal strings (needed for key construction).
func (r *Run) opaqueStrOf(format string, args []value) value {
	var acc value = format
	for _, a := range args {
		if ia, ok := a.(iface); ok {
			a = ia.v
		}
		switch x := a.(type) {
		case string, symStr:
			acc = r.concatStr(acc, x)
		case symInt:
			acc = r.concatStr(acc, r.ufStr("itoa", x.t))
		default:
			if _, isInt := hostKind(a); isInt {
				acc = r.concatStr(acc, fmt.Sprint(a))
			} else {
				return r.opaqueStr("fmt")
			}
		}
	}
	return acc
}

func variadic(v value) []value {
	if v == nil {
		return nil
	}
	return v.([]value)
}

func init() {
	reg("fmt.Sprintf", func(fr *frame, a []value) value {
		return fr.i.run.sprintf(fr, a[0], variadic(a[1]))
	})
	reg("fmt.Sprint", func(fr *frame, a []value) value {
		args := variadic(a[0])
		f := strings.Repeat("%v", len(args))
		return fr.i.run.sprintf(fr, f, args)
	})
	reg("fmt.Sprintln", func(fr *frame, a []value) value {
		args := variadic(a[0])
		f := strings.TrimSpace(strings.Repeat("%v ", len(args))) + "\n"
		return fr.i.run.sprintf(fr, f, args)
	})
	reg("fmt.Println", func(fr *frame, a []value) value { return tuple{0, iface{}} })
	reg("fmt.Printf", func(fr *frame, a []value) value { return tuple{0, iface{}} })
	reg("fmt.Print", func(fr *frame, a []value) value { return tuple{0, iface{}} })
	reg("fmt.Fprintf", func(fr *frame, a []value) value {
		r := fr.i.run
		s := r.sprintf(fr, a[1], variadic(a[2]))
		return r.writeTo(fr, a[0], s)
	})
	reg("fmt.Fprint", func(fr *frame, a []value) value {
		r := fr.i.run
		args := variadic(a[1])
		s := r.sprintf(fr, strings.Repeat("%v", len(args)), args)
		return r.writeTo(fr, a[0], s)
	})
	reg("fmt.Fprintln", func(fr *frame, a []value) value {
		r := fr.i.run
		args := variadic(a[1])
		s := r.sprintf(fr, strings.TrimSpace(strings.Repeat("%v ", len(args)))+"\n", args)
		return r.writeTo(fr, a[0], s)
	})
	reg("fmt.Errorf", func(fr *frame, a []value) value {
		r := fr.i.run
		args := variadic(a[1])
		msg := r.sprintf(fr, a[0], args)
		fs, _ := a[0].(string)
		// locate %w operands
		var wrapped []value
		argi := 0
		for i := 0; i < len(fs); i++ {
			if fs[i] != '%' {
				continue
			}
			i++
			for i < len(fs) && strings.ContainsRune("+-# 0123456789.[]*", rune(fs[i])) {
				i++
			}
			if i >= len(fs) {
				break
			}
			if fs[i] == '%' {
				continue
			}
			if fs[i] == 'w' && argi < len(args) {
				if e, ok := args[argi].(iface); ok && e.t != nil {
					wrapped = append(wrapped, e)
				}
			}
			argi++
		}
		pkg := r.interp.prog.ImportedPackage("fmt")
		switch len(wrapped) {
		case 0:
			return r.newError(msg)
		case 1:
			t := pkg.Type("wrapError").Type()
			var cell value = structure{msg, wrapped[0]}
			return iface{t: types.NewPointer(t), v: &cell}
		default:
			t := pkg.Type("wrapErrors").Type()
			var cell value = structure{msg, wrapped}
			return iface{t: types.NewPointer(t), v: &cell}
		}
	})

	reg("errors.Is", func(fr *frame, a []value) value {
		r := fr.i.run
		err, target := a[0].(iface), a[1].(iface)
		if err.t == nil || target.t == nil {
			return err.t == nil && target.t == nil
		}
		return r.errorsIs(fr, err, target, 0)
	})
	reg("errors.As", func(fr *frame, a []value) value {
		r := fr.i.run
		err := a[0].(iface)
		tgt := a[1].(iface)
		if tgt.t == nil {
			panic(targetPanic{v: iface{t: types.Typ[types.String], v: "errors: target cannot be nil"}})
		}
		pt, ok := tgt.t.Underlying().(*types.Pointer)
		if !ok {
			panic(targetPanic{v: iface{t: types.Typ[types.String], v: "errors: target must be a non-nil pointer"}})
		}
		return r.errorsAs(fr, err, pt.Elem(), tgt.v.(*value), 0)
	})
	reg("errors.Unwrap", func(fr *frame, a []value) value {
		r := fr.i.run
		err := a[0].(iface)
		if err.t == nil {
			return iface{}
		}
		if m := r.findMethod(err.t, "Unwrap"); m != nil && m.Signature.Results().Len() == 1 {
			if _, isSlice := m.Signature.Results().At(0).Type().Underlying().(*types.Slice); !isSlice {
				return call(fr.i, fr, 0, m, []value{err.v})
			}
		}
		return iface{}
	})
	reg("errors.Join", func(fr *frame, a []value) value {
		r := fr.i.run
		var errs []value
		for _, e := range variadic(a[0]) {
			if e.(iface).t != nil {
				errs = append(errs, e)
			}
		}
		if len(errs) == 0 {
			return iface{}
		}
		pkg := r.interp.prog.ImportedPackage("errors")
		t := pkg.Type("joinError").Type()
		var cell value = structure{errs}
		return iface{t: types.NewPointer(t), v: &cell}
	})
}

func (r *Run) unwrapAll(fr *frame, err iface) []iface {
	m := r.findMethod(err.t, "Unwrap")
	if m == nil || m.Signature.Params().Len() != 0 || m.Signature.Results().Len() != 1 {
		return nil
	}
	res := call(fr.i, fr, 0, m, []value{err.v})
	switch x := res.(type) {
	case iface:
		if x.t == nil {
			return nil
		}
		return []iface{x}
	case []value:
		var out []iface
		for _, e := range x {
			if ei := e.(iface); ei.t != nil {
				out = append(out, ei)
			}
		}
		return out
	}
	return nil
}

func (r *Run) errorsIs(fr *frame, err, target iface, depth int) bool {
	if depth > 50 {
		panic(unsupported{"errors.Is: chain too deep"})
	}
	if types.Comparable(target.t) && sameType(err.t, target.t) && r.truth(r.eqv(nil, err, target)) {
		return true
	}
	if m := r.findMethod(err.t, "Is"); m != nil && m.Signature.Params().Len() == 1 {
		if r.truth(call(fr.i, fr, 0, m, []value{err.v, target})) {
			return true
		}
	}
	for _, u := range r.unwrapAll(fr, err) {
		if r.errorsIs(fr, u, target, depth+1) {
			return true
		}
	}
	return false
}

func (r *Run) errorsAs(fr *frame, err iface, T types.Type, dst *value, depth int) bool {
	if err.t == nil || depth > 50 {
		return false
	}
	if types.AssignableTo(err.t, T) {
		if _, isIface := T.Underlying().(*types.Interface); isIface {
			*dst = err
		} else {
			*dst = err.v
		}
		return true
	}
	if m := r.findMethod(err.t, "As"); m != nil && m.Signature.Params().Len() == 1 {
		if r.truth(call(fr.i, fr, 0, m, []value{err.v, iface{t: types.NewPointer(T), v: dst}})) {
			return true
		}
	}
	for _, u := range r.unwrapAll(fr, err) {
		if r.errorsAs(fr, u, T, dst, depth+1) {
			return true
		}
	}
	return false
}

// writeTo calls w.Write([]byte(s)) on an interpreted io.Writer.
func (r *Run) writeTo(fr *frame, w value, s value) value {
	wi := w.(iface)
	if wi.t == nil {
		panic(r.runtimePanic("invalid memory address or nil pointer dereference"))
	}
	m := r.findMethod(wi.t, "Write")
	if m == nil {
		panic(unsupported{"fmt.Fprint to a writer without Write"})
	}
	var b []value
	switch x := s.(type) {
	case string:
		for i := 0; i < len(x); i++ {
			b = append(b, x[i])
		}
	case symBytesStr:
		b = append(b, x.b...)
	default:
		panic(unsupported{"fmt.Fprint of symbolic text"})
	}
	return call(fr.i, fr, 0, m, []value{wi.v, b})
}
