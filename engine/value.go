// Derived from golang.org/x/tools/go/ssa/interp (BSD-style licence, LICENSE.xtools).

package main

// Values are host values in a boxed representation:
//
//	bool, int..uintptr, float32/64, complex, string   concrete scalars (typed host values)
//	symInt, symBool, symFloat, symFP, symStr          symbolic scalars (sym.go)
//	symBytesStr                                       string of concrete length with symbolic bytes
//	*value                                            pointers (never symbolic)
//	structure, array, []value, tuple, iface           aggregates of concrete shape
//	*gmap                                             maps (maps.go)
//	*channel                                          channels (sched.go)
//	*ssa.Function, *ssa.Builtin, *closure, *nativeFunc functions

import (
	"bytes"
	"fmt"
	"go/types"
	"io"
	"strings"
	"unsafe"

	"golang.org/x/tools/go/ssa"
)

type value interface{}

type tuple []value

type array []value

type iface struct {
	t types.Type // never an "untyped" type
	v value
}

type structure []value

type iter interface {
	next() tuple
}

type closure struct {
	Fn  *ssa.Function
	Env []value
}

type bad struct{}

// symBytesStr is a string whose length is concrete and whose bytes may be symbolic
// (uint8 or symInt of kind Uint8).
type symBytesStr struct{ b []value }

func sameType(x, y types.Type) bool {
	if x == nil {
		return y == nil
	}
	return y != nil && types.Identical(x, y)
}

// eqv compares x and y of static type t; the result is bool or symBool.
func (r *Run) eqv(t types.Type, x, y value) value {
	if isSym(x) || isSym(y) {
		return r.symBinop(tokenEQL, t, x, y)
	}
	switch x := x.(type) {
	case bool:
		return x == y.(bool)
	case int:
		return x == y.(int)
	case int8:
		return x == y.(int8)
	case int16:
		return x == y.(int16)
	case int32:
		return x == y.(int32)
	case int64:
		return x == y.(int64)
	case uint:
		return x == y.(uint)
	case uint8:
		return x == y.(uint8)
	case uint16:
		return x == y.(uint16)
	case uint32:
		return x == y.(uint32)
	case uint64:
		return x == y.(uint64)
	case uintptr:
		return x == y.(uintptr)
	case float32:
		return x == y.(float32)
	case float64:
		return x == y.(float64)
	case complex64:
		return x == y.(complex64)
	case complex128:
		return x == y.(complex128)
	case string:
		if yb, ok := y.(symBytesStr); ok {
			return r.bytesStrEq(strToSymBytes(x), yb)
		}
		return x == y.(string)
	case symBytesStr:
		if ys, ok := y.(string); ok {
			return r.bytesStrEq(x, strToSymBytes(ys))
		}
		return r.bytesStrEq(x, y.(symBytesStr))
	case *value:
		return x == y.(*value)
	case *channel:
		return x == y.(*channel)
	case unsafe.Pointer:
		return x == y.(unsafe.Pointer)
	case structure:
		y := y.(structure)
		tStruct := t.Underlying().(*types.Struct)
		var acc value = true
		for i, n := 0, tStruct.NumFields(); i < n; i++ {
			if f := tStruct.Field(i); f.Name() != "_" {
				acc = r.andv(acc, r.eqv(f.Type(), x[i], y[i]))
				if acc == false {
					return false
				}
			}
		}
		return acc
	case array:
		y := y.(array)
		tElt := t.Underlying().(*types.Array).Elem()
		var acc value = true
		for i, xi := range x {
			acc = r.andv(acc, r.eqv(tElt, xi, y[i]))
			if acc == false {
				return false
			}
		}
		return acc
	case iface:
		y := y.(iface)
		if !sameType(x.t, y.t) {
			return false
		}
		if x.t == nil {
			return true
		}
		if !types.Comparable(x.t) {
			panic(r.runtimePanic("comparing uncomparable type " + x.t.String()))
		}
		return r.eqv(x.t, x.v, y.v)
	case rtype:
		return types.Identical(x.t, y.(rtype).t)
	case *gmap:
		return (x != nil) == (y.(*gmap) != nil)
	case []value:
		return (x != nil) == (y.([]value) != nil)
	case *ssa.Function:
		switch y := y.(type) {
		case *ssa.Function:
			return (x != nil) == (y != nil)
		case *closure, *nativeFunc:
			return x != nil
		}
	case *closure:
		switch y := y.(type) {
		case *ssa.Function:
			return (x != nil) == (y != nil)
		}
		return true
	case *nativeFunc:
		switch y := y.(type) {
		case *ssa.Function:
			return (x != nil) == (y != nil)
		}
		return true
	}
	panic(fmt.Sprintf("comparing uncomparable type %s (%T)", t, x))
}

func (r *Run) andv(a, b value) value {
	if ab, ok := a.(bool); ok {
		if !ab {
			return false
		}
		return b
	}
	if bb, ok := b.(bool); ok {
		if !bb {
			return false
		}
		return a
	}
	return r.mkSymBool(r.tc.And(a.(symBool).t, b.(symBool).t))
}

func (r *Run) notv(a value) value {
	if ab, ok := a.(bool); ok {
		return !ab
	}
	return r.mkSymBool(r.tc.Not(a.(symBool).t))
}

// truth forces a bool/symBool to a concrete bool, forking if needed.
func (r *Run) truth(v value) bool {
	switch b := v.(type) {
	case bool:
		return b
	case symBool:
		return r.branch(b.t)
	}
	panic(fmt.Sprintf("truth of %T", v))
}

func strToSymBytes(s string) symBytesStr {
	b := make([]value, len(s))
	for i := 0; i < len(s); i++ {
		b[i] = s[i]
	}
	return symBytesStr{b}
}

func (r *Run) bytesStrEq(x, y symBytesStr) value {
	if len(x.b) != len(y.b) {
		return false
	}
	var acc value = true
	for i := range x.b {
		acc = r.andv(acc, r.eqv(types.Typ[types.Uint8], x.b[i], y.b[i]))
		if acc == false {
			return false
		}
	}
	return acc
}

// load returns the value of type T in *addr.
func load(T types.Type, addr *value) value {
	switch T := T.Underlying().(type) {
	case *types.Struct:
		v, ok := (*addr).(structure)
		if !ok {
			return *addr // an engine-native value of struct type (reflect.Value)
		}
		a := make(structure, len(v))
		for i := range a {
			a[i] = load(T.Field(i).Type(), &v[i])
		}
		return a
	case *types.Array:
		v := (*addr).(array)
		a := make(array, len(v))
		for i := range a {
			a[i] = load(T.Elem(), &v[i])
		}
		return a
	default:
		return *addr
	}
}

// store stores value v of type T into *addr.
func store(T types.Type, addr *value, v value) {
	if p, ok := v.(poison); ok {
		*addr = p
		return
	}
	switch T := T.Underlying().(type) {
	case *types.Struct:
		lhs, ok := (*addr).(structure)
		if !ok {
			*addr = v
			return
		}
		rhs, ok := v.(structure)
		if !ok {
			*addr = v // an engine-native value of struct type (reflect.Value)
			return
		}
		for i := range lhs {
			store(T.Field(i).Type(), &lhs[i], rhs[i])
		}
	case *types.Array:
		lhs, ok := (*addr).(array)
		if !ok {
			*addr = v
			return
		}
		rhs := v.(array)
		for i := range lhs {
			store(T.Elem(), &lhs[i], rhs[i])
		}
	default:
		*addr = v
	}
}

func writeValue(buf *bytes.Buffer, v value) {
	switch v := v.(type) {
	case nil, bool, int, int8, int16, int32, int64, uint, uint8, uint16, uint32, uint64, uintptr, float32, float64, complex64, complex128, string:
		fmt.Fprintf(buf, "%v", v)
	case symInt:
		fmt.Fprintf(buf, "<sym %s>", v.t.name)
	case symBool:
		fmt.Fprintf(buf, "<symbool %s>", v.t.name)
	case symFloat:
		fmt.Fprintf(buf, "<symfloat %s>", v.t.name)
	case symStr:
		fmt.Fprintf(buf, "<atom %s>", v.t.name)
	case *gmap:
		if v == nil {
			buf.WriteString("map[]")
			return
		}
		buf.WriteString("map[")
		sep := ""
		for _, e := range v.entries {
			if e.deleted {
				continue
			}
			buf.WriteString(sep)
			sep = " "
			writeValue(buf, e.key)
			buf.WriteString(":")
			writeValue(buf, e.val)
		}
		buf.WriteString("]")
	case *channel:
		fmt.Fprintf(buf, "%p", v)
	case *value:
		if v == nil {
			buf.WriteString("<nil>")
		} else {
			fmt.Fprintf(buf, "%p", v)
		}
	case iface:
		fmt.Fprintf(buf, "(%s, ", v.t)
		writeValue(buf, v.v)
		buf.WriteString(")")
	case structure:
		buf.WriteString("{")
		for i, e := range v {
			if i > 0 {
				buf.WriteString(" ")
			}
			writeValue(buf, e)
		}
		buf.WriteString("}")
	case array:
		buf.WriteString("[")
		for i, e := range v {
			if i > 0 {
				buf.WriteString(" ")
			}
			writeValue(buf, e)
		}
		buf.WriteString("]")
	case []value:
		buf.WriteString("[")
		for i, e := range v {
			if i > 0 {
				buf.WriteString(" ")
			}
			writeValue(buf, e)
		}
		buf.WriteString("]")
	case *ssa.Function, *ssa.Builtin, *closure:
		fmt.Fprintf(buf, "%p", v)
	case rtype:
		buf.WriteString(v.t.String())
	case tuple:
		buf.WriteString("(")
		for i, e := range v {
			if i > 0 {
				buf.WriteString(", ")
			}
			writeValue(buf, e)
		}
		buf.WriteString(")")
	default:
		fmt.Fprintf(buf, "<%T>", v)
	}
}

func toString(v value) string {
	var b bytes.Buffer
	writeValue(&b, v)
	return b.String()
}

type stringIter struct {
	*strings.Reader
	i int
}

func (it *stringIter) next() tuple {
	okv := make(tuple, 3)
	ch, n, err := it.ReadRune()
	ok := err != io.EOF
	okv[0] = ok
	if ok {
		okv[1] = it.i
		okv[2] = ch
	}
	it.i += n
	return okv
}

// rtype is the dynamic representation of a reflect.Type / type descriptor.
type rtype struct {
	t types.Type
}
