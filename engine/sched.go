package main

// Deterministic scheduler: interpreted goroutines are host goroutines passing a baton; which
// enabled goroutine moves at a scheduling point is a decision of the vector (DESIGN 2.6).

import (
	"fmt"
	"os"
	"runtime/debug"
	"go/types"
	"sync"

	"golang.org/x/tools/go/ssa"
)

var noSleep = os.Getenv("VERIF_NOSLEEP") != "" // validation aid: full exploration without the sleep-set reduction

var schedLog = os.Getenv("VERIF_SCHEDLOG") != ""

type opKind int

const (
	opStart opKind = iota
	opSelect
	opPred // generic predicate (mutex, waitgroup, ...)
	opIdle // WaitIdle: enabled only when nothing else can move
	opYield
)

type selCase struct {
	ch   *channel
	send bool
	val  value
}

type pendingOp struct {
	kind       opKind
	g          *goroutine
	cases      []selCase
	hasDefault bool
	completed  bool
	chosen     int
	recv       value
	recvOK     bool
	pred       func() bool
	obj        interface{}
	desc       string
	seq        int
	readOnly   bool // an atomic load: commutes with other loads of the same cell
}

type goroutine struct {
	id      int
	wake    chan struct{}
	done    bool
	pending *pendingOp
	name    string
	started bool
}

type channel struct {
	id       int
	buf      []value
	capacity int
	closed   bool
	elemT    types.Type
	site     string
	// symbolic counter mode (elements of zero size): occupancy and capacity are terms
	symCount, symCap *Term
}

type timer struct {
	id    int
	when  value // int64 ns or symInt
	fire  func()
	armed bool
	desc  string
}

type sleepEntry struct {
	g  *goroutine
	op *pendingOp
}

type Sched struct {
	sleep    []sleepEntry
	pruned   bool
	r        *Run
	gs       []*goroutine
	cur      *goroutine
	killed   bool
	hostWG   sync.WaitGroup
	finished chan struct{}
	finOnce  sync.Once
	timers   []*timer
	objs     map[*value]interface{}
	nextChan int
	seq      int
	switches int
	inInit   int
	preemptions int
	maxGs    int
	dpor     *dporState
}

func newSched(r *Run) *Sched {
	return &Sched{r: r, finished: make(chan struct{}), objs: map[*value]interface{}{}}
}

func (s *Sched) endRun() {
	s.finOnce.Do(func() {
		s.killed = true
		for _, g := range s.gs {
			if g != s.cur {
				select {
				case g.wake <- struct{}{}:
				default:
				}
			}
		}
		close(s.finished)
	})
}

// park blocks the calling host goroutine until it is given the baton again.
func (s *Sched) park(g *goroutine) {
	<-g.wake
	if s.killed {
		panic(killedPanic{})
	}
}

func (s *Sched) newGoroutine(name string) *goroutine {
	g := &goroutine{id: len(s.gs), wake: make(chan struct{}, 1), name: name}
	s.gs = append(s.gs, g)
	if len(s.gs) > s.maxGs {
		s.maxGs = len(s.gs)
	}
	return g
}

// runGoroutine executes body as goroutine g on the current host goroutine and classifies how it ended.
func (s *Sched) runGoroutine(g *goroutine, isMain bool, body func()) {
	r := s.r
	defer func() {
		p := recover()
		if p == nil {
			g.done = true
			if isMain {
				s.endRun()
				return
			}
			s.handoff(g)
			return
		}
		switch p := p.(type) {
		case killedPanic:
			return
		case runAbort:
		case unsupported:
			if r.inconclusive == "" {
				r.inconclusive = p.Error()
			}
		case targetPanic:
			if r.viol == nil {
				msg := panicText(r, p)
				kind := "panic"
				r.viol = &Violation{Kind: kind, Msg: "uncaught panic in goroutine " + g.name + ": " + msg, Pos: p.where,
					Sig: "panic:" + msg + "@" + p.where, Trace: append([]Decision{}, r.trace...)}
				r.violNeedsModel = true
			}
		default:
			if r.inconclusive == "" {
				r.inconclusive = fmt.Sprintf("engine fault: %v", p)
				if os.Getenv("VERIF_DEBUG") != "" {
					r.inconclusive += "\n" + string(debug.Stack())
				}
			}
		}
		s.endRun()
	}()
	body()
}

func panicText(r *Run, p targetPanic) string {
	switch v := p.v.(type) {
	case iface:
		switch x := v.v.(type) {
		case string:
			if p.runtime {
				return "runtime error: " + x
			}
			return x
		}
		if v.t != nil {
			return fmt.Sprintf("(%s) %s", v.t, toString(v.v))
		}
	}
	return toString(p.v)
}

func (s *Sched) spawn(fr *frame, instr *ssa.Go, fn value, args []value) {
	if s.r.entry != nil && s.r.entry.GoSync {
		call(fr.i, fr, instr.Pos(), fn, args)
		return
	}
	name := fmt.Sprintf("g%d(%s)", len(s.gs), fr.i.prog.Fset.Position(instr.Pos()))
	g := s.newGoroutine(name)
	s.dporSpawn(fr.g, g)
	s.seq++
	g.pending = &pendingOp{kind: opStart, g: g, seq: s.seq}
	s.hostWG.Add(1)
	i := fr.i
	go func() {
		defer s.hostWG.Done()
		<-g.wake
		if s.killed {
			return
		}
		g.pending = nil
		g.started = true
		s.runGoroutine(g, false, func() {
			root := &frame{i: i, g: g}
			call(i, root, instr.Pos(), fn, args)
		})
	}()
}

// ---------- choosing who moves

func (s *Sched) opReady(op *pendingOp) bool {
	if op.completed {
		return true
	}
	switch op.kind {
	case opStart, opYield:
		return true
	case opPred:
		return op.pred()
	case opSelect:
		if op.hasDefault {
			return true
		}
		for i := range op.cases {
			if s.caseReady(op.g, &op.cases[i]) {
				return true
			}
		}
		return false
	}
	return false
}

func (s *Sched) enabled() []*goroutine {
	var en []*goroutine
	for _, g := range s.gs {
		if g.done || g.pending == nil {
			continue
		}
		if g.pending.kind == opIdle {
			continue
		}
		if s.opReady(g.pending) {
			en = append(en, g)
		}
	}
	if len(en) < 2 {
		return en
	}
	// Rendezvous reduction: when two parked goroutines are enabled only because of each other
	// (unbuffered send/receive pair), moving either one performs the same joint transfer, so only
	// the lower-numbered one is offered.
	var out []*goroutine
	for _, h := range en {
		drop := false
		if h.pending.kind == opSelect && !h.pending.completed && !h.pending.hasDefault && !s.readySolo(h.pending) {
			for _, p := range en {
				if p.id >= h.id || p.pending.kind != opSelect || p.pending.completed || p.pending.hasDefault || s.readySolo(p.pending) {
					continue
				}
				if s.peers(h.pending, p.pending) {
					drop = true
					break
				}
			}
		}
		if !drop {
			out = append(out, h)
		}
	}
	return out
}

// readySolo: the select op can proceed without any parked peer (buffer space/data/closed).
func (s *Sched) readySolo(op *pendingOp) bool {
	for i := range op.cases {
		c := &op.cases[i]
		ch := c.ch
		if ch == nil {
			continue
		}
		if ch.symCount != nil {
			return true
		}
		if c.send {
			if ch.closed || len(ch.buf) < ch.capacity {
				return true
			}
		} else if len(ch.buf) > 0 || ch.closed {
			return true
		}
	}
	return false
}

// peers: a has a case matching a case of b on the same channel in the opposite direction.
func (s *Sched) peers(a, b *pendingOp) bool {
	for i := range a.cases {
		for j := range b.cases {
			if a.cases[i].ch != nil && a.cases[i].ch == b.cases[j].ch && a.cases[i].send != b.cases[j].send {
				return true
			}
		}
	}
	return false
}

// opObjs returns the synchronisation objects an operation touches (nil: unknown => dependent on all).
func opObjs(op *pendingOp) []interface{} {
	switch op.kind {
	case opStart:
		return []interface{}{} // a goroutine start touches no shared object
	case opSelect:
		var out []interface{}
		for i := range op.cases {
			if op.cases[i].ch != nil {
				out = append(out, op.cases[i].ch)
			}
		}
		return out
	}
	if op.obj == nil {
		return nil
	}
	return []interface{}{op.obj}
}

// independent: the two pending operations commute from the current state. Operations on
// different objects always do; on a shared object, two atomic loads do, and so do two
// receive-only accesses to a channel that holds no data and has no parked sender (both observe
// "closed", or neither can complete on it now) - the usual read/read refinement.
func (s *Sched) independent(a, b *pendingOp) bool {
	oa, ob := s.effObjs(a), s.effObjs(b)
	if oa == nil || ob == nil {
		return false
	}
	for _, x := range oa {
		for _, y := range ob {
			if x != y {
				continue
			}
			if a.readOnly && b.readOnly {
				continue
			}
			if ch, ok := x.(*channel); ok && ch.symCount == nil && len(ch.buf) == 0 && recvOnly(a, ch) && recvOnly(b, ch) {
				if p, _ := s.parkedPeer(nil, ch, true); ch.closed || p == nil {
					continue
				}
			}
			return false
		}
	}
	return true
}

// effObjs: the objects op touches when executed now. A send or receive that rendezvous with a
// parked select of another goroutine also decides that select, i.e. touches every channel the
// parked select waits on (two senders on different channels racing for one parked select are
// dependent).
func (s *Sched) effObjs(op *pendingOp) []interface{} {
	out := opObjs(op)
	if out == nil || op.kind != opSelect || op.completed {
		return out
	}
	for i := range op.cases {
		c := &op.cases[i]
		if c.ch == nil {
			continue
		}
		for _, g := range s.gs {
			p := g.pending
			if g == op.g || g.done || p == nil || p.completed || p.kind != opSelect {
				continue
			}
			match := false
			for j := range p.cases {
				if p.cases[j].ch == c.ch && p.cases[j].send != c.send {
					match = true
					break
				}
			}
			if match {
				for j := range p.cases {
					if p.cases[j].ch != nil {
						out = append(out, p.cases[j].ch)
					}
				}
			}
		}
	}
	return out
}

// recvOnly: op is a select (or plain receive) whose every case on ch is a receive.
func recvOnly(op *pendingOp, ch *channel) bool {
	if op.kind != opSelect {
		return false
	}
	for i := range op.cases {
		if op.cases[i].ch == ch && op.cases[i].send {
			return false
		}
	}
	return true
}

func (s *Sched) asleep(g *goroutine) bool {
	for _, e := range s.sleep {
		if e.g == g && e.op == g.pending {
			return true
		}
	}
	return false
}

// pickDPOR: scheduling in DPOR mode. The first awake enabled goroutine is taken by default; alternatives
// are added after the run from the races it exhibited (dpor.go). A replayed decision names the goroutine.
func (s *Sched) pickDPOR() *goroutine {
	r := s.r
	en := s.enabled()
	if s.armedTimers() > 0 {
		panic(unsupported{"dpor mode does not handle environment timers; use sleep sets or a preemption bound for this entry"})
	}
	if len(en) == 0 {
		for _, g := range s.gs {
			if !g.done && g.pending != nil && g.pending.kind == opIdle {
				s.sleep = nil
				s.dporRecord(g, []*goroutine{g}, len(r.trace))
				r.record(Decision{K: 's', C: g.id, N: 1, G: true})
				return g
			}
		}
		s.deadlock()
	}
	var cand []*goroutine
	for _, g := range en {
		if r.concrete != nil || !s.asleep(g) {
			cand = append(cand, g)
		}
	}
	if len(cand) == 0 {
		s.pruned = true
		panic(runAbort{"pruned"})
	}
	var chosen *goroutine
	var slept []int
	if r.replaying() {
		d := r.prefix[r.pos]
		if d.K != 's' || !d.G {
			panic(fmt.Sprintf("decision vector mismatch: want a DPOR schedule decision, have %v at %d", d, r.pos))
		}
		for _, g := range cand {
			if g.id == d.C {
				chosen = g
			}
		}
		if chosen == nil {
			if r.concrete != nil {
				panic(fmt.Sprintf("decision vector mismatch: goroutine %d is not enabled at %d", d.C, r.pos))
			}
			// the goroutine is asleep or not enabled here: nothing new below this alternative
			s.pruned = true
			panic(runAbort{"pruned"})
		}
		slept = d.S
		pos := len(r.trace)
		r.record(d)
		s.dporRecord(chosen, cand, pos)
	} else {
		chosen = cand[0]
		pos := len(r.trace)
		r.record(Decision{K: 's', C: chosen.id, N: len(cand), G: true})
		s.dporRecord(chosen, cand, pos)
	}
	var ns []sleepEntry
	for _, e := range s.sleep {
		if e.g != chosen && !e.g.done && e.g.pending == e.op && s.independent(e.op, chosen.pending) {
			ns = append(ns, e)
		}
	}
	if r.concrete == nil {
		for _, id := range slept {
			if id < 0 || id >= len(s.gs) {
				continue
			}
			g := s.gs[id]
			if g == chosen || g.done || g.pending == nil {
				continue
			}
			if s.independent(g.pending, chosen.pending) {
				ns = append(ns, sleepEntry{g, g.pending})
			}
		}
	}
	s.sleep = ns
	return chosen
}

// pick selects the next goroutine to move (may fire timers); reports deadlock by ending the run.
// Sleep sets (Godefroid) prune interleavings that only commute independent operations: after the
// i-th candidate is chosen, candidates 0..i-1 sleep until a dependent operation is executed.
func (s *Sched) pick() *goroutine {
	if s.dporOn() {
		return s.pickDPOR()
	}
	for {
		en := s.enabled()
		nt := s.armedTimers()
		if len(en) == 0 && nt == 0 {
			// idle waiters move only when nothing else can
			for _, g := range s.gs {
				if !g.done && g.pending != nil && g.pending.kind == opIdle {
					s.sleep = nil
					return g
				}
			}
			s.deadlock()
		}
		bound := -1
		if s.r.entry != nil {
			bound = s.r.w.d.preemptBound(s.r.entry)
		}
		var cand []*goroutine
		for _, g := range en {
			if bound >= 0 || noSleep || !s.asleep(g) { // sleep sets are not combined with preemption bounding
				cand = append(cand, g)
			}
		}
		// preemption bounding (CHESS): switching away from a goroutine that could continue, or letting
		// an environment event overtake it, is a preemption; once the budget is spent the running
		// goroutine continues until it blocks or ends
		curEnabled := false
		if bound >= 0 && s.cur != nil && !s.cur.done && s.cur.pending != nil {
			for _, g := range cand {
				if g == s.cur {
					curEnabled = true
				}
			}
		}
		if curEnabled && s.preemptions >= bound {
			cand = []*goroutine{s.cur}
			nt = 0
		}
		n := len(cand)
		if nt > 0 {
			n++
		}
		if n == 0 {
			s.pruned = true
			panic(runAbort{"pruned"})
		}
		c := s.r.choose('s', n)
		if schedLog {
			msg := fmt.Sprintf("pick #%d:", len(s.r.trace))
			for i, g := range cand {
				mark := " "
				if i == c {
					mark = "*"
				}
				msg += fmt.Sprintf(" %s%d[%s]", mark, g.id, g.pending.desc)
			}
			msg += " | sleep:"
			for _, e := range s.sleep {
				msg += fmt.Sprintf(" %d[%s]", e.g.id, e.op.desc)
			}
			fmt.Fprintln(os.Stderr, msg)
		}
		if curEnabled && (c >= len(cand) || cand[c] != s.cur) {
			s.preemptions++
		}
		if c < len(cand) {
			chosen := cand[c]
			var ns []sleepEntry
			for _, e := range s.sleep {
				if e.g != chosen && !e.g.done && e.g.pending == e.op && s.independent(e.op, chosen.pending) {
					ns = append(ns, e)
				}
			}
			for _, g := range cand[:c] {
				if s.independent(g.pending, chosen.pending) {
					ns = append(ns, sleepEntry{g, g.pending})
				}
			}
			s.sleep = ns
			return chosen
		}
		s.sleep = nil // an environment event is dependent on everything
		s.fireEarliestTimer()
	}
}

func (s *Sched) deadlock() {
	r := s.r
	desc := ""
	for _, g := range s.gs {
		if !g.done {
			d := "running"
			if g.pending != nil {
				d = g.pending.desc
			}
			desc += fmt.Sprintf(" [%s blocked on %s]", g.name, d)
		}
	}
	if r.viol == nil {
		r.viol = &Violation{Kind: "deadlock", Msg: "deadlock:" + desc, Sig: "deadlock", Trace: append([]Decision{}, r.trace...)}
		r.violNeedsModel = true
	}
	panic(runAbort{"violation"})
}

// yield is called by the running goroutine before a visible operation.
func (s *Sched) yield(g *goroutine, op *pendingOp) {
	if s.inInit > 0 {
		// package initialisers run atomically (lazily, inside whichever run first touches the package):
		// they must not contribute scheduling decisions, or a run would depend on worker history
		if !s.opReady(op) {
			panic(unsupported{"package initialiser blocks on " + op.desc})
		}
		return
	}
	if g == nil {
		g = s.cur
	}
	op.g = g
	s.seq++
	op.seq = s.seq
	g.pending = op
	s.dporPublish(g, op)
	s.wakePeers(op)
	next := s.pick()
	if next != g {
		s.switches++
		s.cur = next
		next.wake <- struct{}{}
		s.park(g)
	}
	g.pending = nil
}

// wakePeers: publishing a channel operation changes what a parked select of another goroutine
// can do (a new rendezvous partner makes another case ready) although no operation on that
// channel has been executed yet. A sleeping select with a case matching the new operation is
// therefore a different transition from the one that was put to sleep: it is woken.
func (s *Sched) wakePeers(op *pendingOp) {
	if op.kind != opSelect || len(s.sleep) == 0 {
		return
	}
	var ns []sleepEntry
	for _, e := range s.sleep {
		if e.g != op.g && e.op.kind == opSelect && !e.op.completed && s.peers(e.op, op) {
			continue
		}
		ns = append(ns, e)
	}
	s.sleep = ns
}

// handoff passes the baton on after g has finished.
func (s *Sched) handoff(g *goroutine) {
	func() {
		defer func() {
			if p := recover(); p != nil {
				if _, ok := p.(runAbort); ok {
					s.endRun()
					return
				}
				panic(p)
			}
		}()
		next := s.pick()
		s.cur = next
		next.wake <- struct{}{}
	}()
}

func (s *Sched) yieldPred(fr *frame, desc string, obj interface{}, pred func() bool) {
	s.yield(fr.g, &pendingOp{kind: opPred, pred: pred, obj: obj, desc: desc})
}

// ---------- channels

func (s *Sched) newChan(capacity int, elemT types.Type, site string) *channel {
	s.nextChan++
	return &channel{id: s.nextChan, capacity: capacity, elemT: elemT, site: site}
}

func (c *channel) length() int {
	if c == nil {
		return 0
	}
	return len(c.buf)
}

// parkedPeer finds the longest-waiting other goroutine with an uncompleted case on ch in direction send.
func (s *Sched) parkedPeer(self *goroutine, ch *channel, send bool) (*pendingOp, int) {
	var best *pendingOp
	bi := -1
	if ch.closed && send {
		// close() wakes every parked sender with a panic: a receiver arriving afterwards never
		// rendezvous with one of them
		return nil, -1
	}
	for _, g := range s.gs {
		if g == self || g.done || g.pending == nil || g.pending.completed || g.pending.kind != opSelect {
			continue
		}
		for i := range g.pending.cases {
			c := &g.pending.cases[i]
			if c.ch == ch && c.send == send {
				if best == nil || g.pending.seq < best.seq {
					best, bi = g.pending, i
				}
				break
			}
		}
	}
	return best, bi
}

func (s *Sched) caseReady(self *goroutine, c *selCase) bool {
	ch := c.ch
	if ch == nil {
		return false
	}
	if ch.symCount != nil {
		return s.symChanReady(ch, c.send)
	}
	if c.send {
		if ch.closed || len(ch.buf) < ch.capacity {
			return true
		}
		if len(ch.buf) > 0 {
			// full buffer: a pending receiver must take from the buffer first
			return false
		}
		p, _ := s.parkedPeer(self, ch, false)
		return p != nil
	}
	if len(ch.buf) > 0 || ch.closed {
		return true
	}
	p, _ := s.parkedPeer(self, ch, true)
	return p != nil
}

func (s *Sched) doSend(self *goroutine, ch *channel, v value) {
	r := s.r
	if ch.closed {
		panic(targetPanic{v: iface{t: r.interp.runtimeErrorString, v: "send on closed channel"}, runtime: true, where: "chan " + ch.site})
	}
	if ch.symCount != nil {
		ch.symCount = r.tc.Add(ch.symCount, r.tc.Int64(1))
		return
	}
	if len(ch.buf) == 0 {
		if p, i := s.parkedPeer(self, ch, false); p != nil {
			p.completed, p.chosen, p.recv, p.recvOK = true, i, v, true
			return
		}
	}
	if len(ch.buf) >= ch.capacity {
		panic("engine fault: send on full channel chosen")
	}
	ch.buf = append(ch.buf, v)
}

func (s *Sched) doRecv(self *goroutine, ch *channel) (value, bool) {
	r := s.r
	if ch.symCount != nil {
		ch.symCount = r.tc.Sub(ch.symCount, r.tc.Int64(1))
		return zero(ch.elemT), true
	}
	if len(ch.buf) > 0 {
		v := ch.buf[0]
		ch.buf = append([]value{}, ch.buf[1:]...)
		if p, i := s.parkedPeer(self, ch, true); p != nil {
			ch.buf = append(ch.buf, p.cases[i].val)
			p.completed, p.chosen = true, i
		}
		return v, true
	}
	if p, i := s.parkedPeer(self, ch, true); p != nil {
		p.completed, p.chosen = true, i
		return p.cases[i].val, true
	}
	if ch.closed {
		return nil, false
	}
	panic("engine fault: receive on empty channel chosen")
}

func (s *Sched) symChanReady(ch *channel, send bool) bool {
	tc := s.r.tc
	if send {
		return s.r.branch(tc.Lt(ch.symCount, ch.symCap))
	}
	return s.r.branch(tc.Lt(tc.Int64(0), ch.symCount))
}

func (s *Sched) chanSend(fr *frame, ch *channel, v value) {
	op := &pendingOp{kind: opSelect, cases: []selCase{{ch: ch, send: true, val: v}}, desc: "chan send"}
	if ch != nil {
		op.desc = "send on chan " + ch.site
		op.obj = ch
	}
	s.yield(fr.g, op)
	if op.completed {
		return
	}
	s.doSend(fr.g, ch, v)
}

func (s *Sched) chanRecv(fr *frame, ch *channel) (value, bool) {
	op := &pendingOp{kind: opSelect, cases: []selCase{{ch: ch, send: false}}, desc: "chan receive"}
	if ch != nil {
		op.desc = "receive on chan " + ch.site
		op.obj = ch
	}
	s.yield(fr.g, op)
	if op.completed {
		return op.recv, op.recvOK
	}
	return s.doRecv(fr.g, ch)
}

func (s *Sched) chanClose(fr *frame, ch *channel) {
	r := s.r
	s.yield(fr.g, &pendingOp{kind: opYield, obj: ch, desc: "close"})
	if ch == nil {
		panic(r.runtimePanic("close of nil channel"))
	}
	if ch.closed {
		panic(targetPanic{v: iface{t: r.interp.runtimeErrorString, v: "close of closed channel"}, runtime: true, where: "chan " + ch.site})
	}
	ch.closed = true
}

func (s *Sched) doSelect(fr *frame, instr *ssa.Select) value {
	op := &pendingOp{kind: opSelect, hasDefault: !instr.Blocking, desc: "select"}
	for _, st := range instr.States {
		c := selCase{send: st.Dir == types.SendOnly}
		if chv := fr.get(st.Chan); chv != nil {
			c.ch = chv.(*channel)
		}
		if st.Send != nil {
			c.val = fr.get(st.Send)
		}
		op.cases = append(op.cases, c)
	}
	s.yield(fr.g, op)
	chosen := -1
	var recv value
	recvOK := false
	if op.completed {
		chosen, recv, recvOK = op.chosen, op.recv, op.recvOK
	} else {
		var ready []int
		for i := range op.cases {
			if s.caseReady(fr.g, &op.cases[i]) {
				ready = append(ready, i)
			}
		}
		if len(ready) > 0 {
			chosen = ready[s.r.choose('c', len(ready))]
			if schedLog {
				fmt.Fprintf(os.Stderr, "  select by g%d: ready cases %v chosen %d\n", fr.g.id, ready, chosen)
			}
			c := &op.cases[chosen]
			if c.send {
				s.doSend(fr.g, c.ch, c.val)
			} else {
				recv, recvOK = s.doRecv(fr.g, c.ch)
			}
		} else if !op.hasDefault {
			panic("engine fault: select resumed with no ready case")
		}
	}
	res := tuple{chosen, recvOK}
	for i, st := range instr.States {
		if st.Dir == types.RecvOnly {
			var v value
			if i == chosen && recvOK {
				v = recv
			} else {
				v = zero(st.Chan.Type().Underlying().(*types.Chan).Elem())
			}
			res = append(res, v)
		}
	}
	return res
}

// ---------- timers (environment events)

func (s *Sched) armedTimers() int {
	n := 0
	for _, t := range s.timers {
		if t.armed {
			n++
		}
	}
	return n
}

func (s *Sched) addTimer(when value, desc string, fire func()) *timer {
	t := &timer{id: len(s.timers), when: when, fire: fire, armed: true, desc: desc}
	s.timers = append(s.timers, t)
	return t
}

// fireEarliestTimer fires an armed timer that no other armed timer strictly precedes and
// advances the virtual clock to its due time.
func (s *Sched) fireEarliestTimer() {
	r := s.r
	var best *timer
	for _, t := range s.timers {
		if !t.armed {
			continue
		}
		if best == nil {
			best = t
			continue
		}
		if r.truth(binop(r, tokenLSS, nil, t.when, best.when)) {
			best = t
		}
	}
	if best == nil {
		return
	}
	best.armed = false
	if r.truth(binop(r, tokenLSS, nil, r.now, best.when)) {
		r.now = best.when
	}
	best.fire()
}

// ---------- sync primitives (engine-native models, keyed by the address of the object)

type mutexState struct {
	locked  bool
	readers int
}
type wgTicket struct{ released bool }

// wgState: the counter plus the waiters. When the counter reaches zero every parked waiter is
// released; a waiter that resumes after a later Add finds the group "reused before previous Wait has
// returned" (the run-time panic of sync.WaitGroup).
type wgState struct {
	n       int64
	tickets []*wgTicket
}

func (w *wgState) releaseAll() {
	for _, t := range w.tickets {
		t.released = true
	}
}

func (s *Sched) mutex(p *value) *mutexState {
	if m, ok := s.objs[p].(*mutexState); ok {
		return m
	}
	m := &mutexState{}
	s.objs[p] = m
	return m
}

func (s *Sched) waitgroup(p *value) *wgState {
	if m, ok := s.objs[p].(*wgState); ok {
		return m
	}
	m := &wgState{}
	s.objs[p] = m
	return m
}
