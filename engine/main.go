package main

// gosym: symbolic execution of go-zero harnesses over go/ssa with an SMT back end.
//
//	gosym check C12 --tier quick|thorough [--workers N] [--solver z3|z3-new|cvc5] [--entry name]
//	gosym replay /verif/replays/C12/1.json

import (
	"go/types"
	"math"
	"runtime"
	"runtime/debug"
	"runtime/pprof"
	"bufio"
	"encoding/json"
	"flag"
	"fmt"
	"go/ast"
	"go/token"
	"os"
	"path/filepath"
	"sort"
	"strconv"
	"strings"
	"sync"
	"time"

	"golang.org/x/tools/go/packages"
	"golang.org/x/tools/go/ssa"
	"golang.org/x/tools/go/ssa/ssautil"
)

const verifDir = "/verif"

// embedVars: contents of //go:embed string variables (pkgpath.name -> text), read at load time.
var embedVars map[string]string

func defaultWorkers() int {
	n := runtime.NumCPU() // honours the affinity mask / cgroup cpuset of the process
	if n > 16 {
		n = 16
	}
	if n < 1 {
		n = 1
	}
	return n
}

func envOr(k, d string) string {
	if v := os.Getenv(k); v != "" {
		return v
	}
	return d
}

func main() {
	if len(os.Args) < 3 {
		fmt.Fprintln(os.Stderr, "usage: gosym check <Cxx> [--tier quick|thorough] | gosym replay <file>")
		os.Exit(2)
	}
	cmd := os.Args[1]
	arg := os.Args[2]
	fs := flag.NewFlagSet("gosym", flag.ExitOnError)
	tier := fs.String("tier", envOr("VERIF_TIER", "quick"), "quick or thorough")
	workers := fs.Int("workers", defaultWorkers(), "parallel workers (default: the CPUs available to this process, at most 16)")
	solver := fs.String("solver", "z3", "z3, z3-new or cvc5")
	only := fs.String("entry", "", "run only this entry")
	repo := fs.String("repo", envOr("VERIF_REPO", "/repo"), "repository root")
	budget := fs.Int("budget", 0, "wall-clock budget in seconds (0 = tier default)")
	noEvidence := fs.Bool("no-evidence", false, "do not write the evidence file")
	prof := fs.String("cpuprofile", "", "write a CPU profile")
	fs.Parse(os.Args[3:])
	debug.SetGCPercent(400)
	if *prof != "" {
		f, _ := os.Create(*prof)
		pprof.StartCPUProfile(f)
		defer pprof.StopCPUProfile()
	}
	switch cmd {
	case "check":
		rc := runCheck(arg, *tier, *workers, *solver, *only, *repo, *budget, !*noEvidence)
		pprof.StopCPUProfile()
		os.Exit(rc)
	case "replay":
		os.Exit(runReplay(arg, *solver, *repo))
	}
	fmt.Fprintln(os.Stderr, "unknown command", cmd)
	os.Exit(2)
}

// ---------- loading

type loaded struct {
	prog    *ssa.Program
	entries []*HarnessEntry
	stubs   map[string]*ssa.Function
}

func loadHarness(prop, repo string) (*loaded, error) {
	hdir := filepath.Join(verifDir, "harness", prop)
	files, _ := filepath.Glob(filepath.Join(hdir, "*.go"))
	if len(files) == 0 {
		return nil, fmt.Errorf("no harness files in %s", hdir)
	}
	overlay := map[string][]byte{}
	pkgDirs := map[string]bool{}
	rtSrc, err := os.ReadFile(filepath.Join(verifDir, "verifrt", "verifrt.go"))
	if err != nil {
		return nil, err
	}
	overlay[filepath.Join(repo, "internal", "verifrt", "verifrt.go")] = rtSrc
	harnessFile := map[string]string{} // overlay path -> pkg dir
	for _, f := range files {
		src, err := os.ReadFile(f)
		if err != nil {
			return nil, err
		}
		dir := ""
		sc := bufio.NewScanner(strings.NewReader(string(src)))
		for sc.Scan() {
			line := strings.TrimSpace(sc.Text())
			if strings.HasPrefix(line, "//verif:pkg ") {
				dir = strings.TrimSpace(strings.TrimPrefix(line, "//verif:pkg "))
				break
			}
		}
		if dir == "" {
			return nil, fmt.Errorf("%s: missing //verif:pkg directive", f)
		}
		base := strings.TrimSuffix(filepath.Base(f), ".go")
		op := filepath.Join(repo, dir, "zz_verif_"+strings.ToLower(prop)+"_"+base+".go")
		overlay[op] = src
		harnessFile[op] = dir
		pkgDirs[dir] = true
	}
	var patterns []string
	for d := range pkgDirs {
		patterns = append(patterns, "./"+d)
	}
	sort.Strings(patterns)
	patterns = append(patterns, "./internal/verifrt", "errors", "runtime", "fmt", "context", "time")
	cfg := &packages.Config{
		Mode:    packages.LoadAllSyntax,
		Dir:     repo,
		Overlay: overlay,
		Env:     append(os.Environ(), "GOFLAGS=-mod=mod", "GOPROXY=off", "GOSUMDB=off", "GOTOOLCHAIN=local", "CGO_ENABLED=0"),
	}
	pkgs, err := packages.Load(cfg, patterns...)
	if err != nil {
		return nil, err
	}
	nerr := 0
	packages.Visit(pkgs, nil, func(p *packages.Package) {
		for _, e := range p.Errors {
			if nerr < 20 {
				fmt.Fprintf(os.Stderr, "load error: %s: %v\n", p.PkgPath, e)
			}
			nerr++
		}
	})
	if nerr > 0 {
		return nil, fmt.Errorf("%d package load errors (the harness no longer builds against /repo)", nerr)
	}
	prog, ssaPkgs := ssautil.AllPackages(pkgs, ssa.InstantiateGenerics)
	prog.Build()
	ld := &loaded{prog: prog, stubs: map[string]*ssa.Function{}}
	// //go:embed string variables of go-zero packages are filled from the files in the running tree
	embedVars = map[string]string{}
	packages.Visit(pkgs, nil, func(p *packages.Package) {
		if !strings.HasPrefix(p.PkgPath, "github.com/zeromicro/go-zero") {
			return
		}
		for _, file := range p.Syntax {
			dir := filepath.Dir(p.Fset.Position(file.Pos()).Filename)
			for _, decl := range file.Decls {
				gd, ok := decl.(*ast.GenDecl)
				if !ok || gd.Tok != token.VAR {
					continue
				}
				for _, sp := range gd.Specs {
					vs := sp.(*ast.ValueSpec)
					doc := vs.Doc
					if doc == nil && len(gd.Specs) == 1 {
						doc = gd.Doc
					}
					if doc == nil || len(vs.Names) != 1 {
						continue
					}
					for _, c := range doc.List {
						if strings.HasPrefix(c.Text, "//go:embed ") {
							fn := strings.TrimSpace(strings.TrimPrefix(c.Text, "//go:embed "))
							if b, err := os.ReadFile(filepath.Join(dir, fn)); err == nil {
								embedVars[p.PkgPath+"."+vs.Names[0].Name] = string(b)
							}
						}
					}
				}
			}
		}
	})
	for i, p := range pkgs {
		sp := ssaPkgs[i]
		if sp == nil {
			continue
		}
		for _, file := range p.Syntax {
			fname := p.Fset.Position(file.Pos()).Filename
			dir, isHarness := harnessFile[fname]
			if !isHarness {
				continue
			}
			// file-level stub directives (comment groups that are not the doc of a Verif_ entry)
			entryDocs := map[*ast.CommentGroup]bool{}
			for _, decl := range file.Decls {
				if fd, ok := decl.(*ast.FuncDecl); ok && fd.Doc != nil && strings.HasPrefix(fd.Name.Name, "Verif_") {
					entryDocs[fd.Doc] = true
				}
			}
			for _, cg := range file.Comments {
				if entryDocs[cg] {
					continue
				}
				for _, c := range cg.List {
					if strings.HasPrefix(c.Text, "//verif:stub ") {
						f := strings.Fields(strings.TrimPrefix(c.Text, "//verif:stub "))
						if len(f) != 2 {
							return nil, fmt.Errorf("%s: bad stub directive %q", fname, c.Text)
						}
						target := sp.Func(f[1])
						if target == nil {
							return nil, fmt.Errorf("%s: stub target %s not found", fname, f[1])
						}
						ld.stubs[f[0]] = target
					}
				}
			}
			for _, decl := range file.Decls {
				fd, ok := decl.(*ast.FuncDecl)
				if !ok || fd.Recv != nil || !strings.HasPrefix(fd.Name.Name, "Verif_") {
					continue
				}
				e := &HarnessEntry{Name: fd.Name.Name, Fn: sp.Func(fd.Name.Name), PkgDir: dir, Tiers: map[string]bool{}}
				found := false
				if fd.Doc != nil {
					for _, c := range fd.Doc.List {
						if strings.HasPrefix(c.Text, "//verif:entry") {
							found = true
							if err := parseEntryDirective(e, strings.TrimPrefix(c.Text, "//verif:entry")); err != nil {
								return nil, fmt.Errorf("%s: %v", fd.Name.Name, err)
							}
						} else if strings.HasPrefix(c.Text, "//verif:doc ") {
							e.Doc += strings.TrimPrefix(c.Text, "//verif:doc ") + " "
						} else if strings.HasPrefix(c.Text, "//verif:stub ") {
							f := strings.Fields(strings.TrimPrefix(c.Text, "//verif:stub "))
							if len(f) != 2 || sp.Func(f[1]) == nil {
								return nil, fmt.Errorf("%s: bad entry stub directive %q", fd.Name.Name, c.Text)
							}
							if e.Stubs == nil {
								e.Stubs = map[string]*ssa.Function{}
							}
							e.Stubs[f[0]] = sp.Func(f[1])
						}
					}
				}
				if !found {
					continue
				}
				if len(e.Tiers) == 0 {
					e.Tiers["quick"], e.Tiers["thorough"] = true, true
				}
				ld.entries = append(ld.entries, e)
			}
		}
	}
	sort.Slice(ld.entries, func(i, j int) bool { return ld.entries[i].Name < ld.entries[j].Name })
	return ld, nil
}

func parseEntryDirective(e *HarnessEntry, s string) error {
	for _, f := range strings.Fields(s) {
		k, v, _ := strings.Cut(f, "=")
		switch k {
		case "tier":
			for _, t := range strings.Split(v, ",") {
				e.Tiers[t] = true
			}
		case "steps":
			n, err := strconv.ParseInt(v, 10, 64)
			if err != nil {
				return err
			}
			e.MaxSteps = n
		case "maporder":
			e.MapOrder = v
		case "gosync":
			e.GoSync = true
		case "dpor":
			e.DPOR = true
		case "allowdeadlock":
			e.AllowDeadlock = true
		case "maxruns":
			n, _ := strconv.Atoi(v)
			e.MaxRuns = n
		case "cover":
			e.Covers = append(e.Covers, strings.Split(v, ",")...)
		case "native":
			e.Native = true
		case "float":
			e.Float = v
		case "preempt":
			// preempt=N or preempt=Nquick,Nthorough
			q, t, two := strings.Cut(v, ",")
			n, _ := strconv.Atoi(q)
			e.Preempt, e.PreemptThorough = n, n
			if two {
				e.PreemptThorough, _ = strconv.Atoi(t)
			}
		case "recycle":
			n, _ := strconv.Atoi(v)
			e.Recycle = n
		default:
			return fmt.Errorf("unknown entry option %q", k)
		}
	}
	return nil
}

func loadKnown() []knownFinding {
	var out []knownFinding
	b, err := os.ReadFile(filepath.Join(verifDir, "known_findings.txt"))
	if err != nil {
		return nil
	}
	for _, line := range strings.Split(string(b), "\n") {
		line = strings.TrimSpace(line)
		if line == "" || strings.HasPrefix(line, "#") {
			continue
		}
		kind, rest, ok := strings.Cut(line, ":")
		if !ok {
			continue
		}
		kf := knownFinding{kind: strings.TrimSpace(kind)}
		rest = strings.TrimSpace(rest)
		for _, f := range strings.Fields(rest) {
			if strings.HasPrefix(f, "property=") {
				kf.prop = strings.TrimPrefix(f, "property=")
			}
		}
		if i := strings.Index(rest, "sig="); i >= 0 {
			s := rest[i+4:]
			if strings.HasPrefix(s, "\"") {
				if j := strings.Index(s[1:], "\""); j >= 0 {
					kf.sig = s[1 : j+1]
					kf.text = strings.TrimSpace(s[j+2:])
				}
			} else {
				f := strings.Fields(s)
				kf.sig = f[0]
				kf.text = strings.TrimSpace(strings.TrimPrefix(s, f[0]))
			}
		} else {
			kf.text = rest
		}
		out = append(out, kf)
	}
	return out
}

// ---------- check

func runCheck(prop, tier string, nWorkers int, solverName, only, repo string, budget int, evidence bool) int {
	t0 := time.Now()
	tierN := 0
	if tier == "thorough" {
		tierN = 1
	}
	if budget == 0 {
		budget = 1200
		if tierN == 1 {
			budget = 7200
		}
	}
	seed, _ := strconv.ParseInt(os.Getenv("VERIF_SEED"), 10, 64)
	ld, err := loadHarness(prop, repo)
	if err != nil {
		fmt.Fprintf(os.Stderr, "gosym: cannot load harness for %s: %v\n", prop, err)
		fmt.Printf("INCONCLUSIVE property=%s reason=load-failure\n", prop)
		return 2
	}
	loadT := time.Since(t0)
	d := &Driver{prop: prop, tier: tierN, tierName: tier, seed: seed, repo: repo, prog: ld.prog, entries: ld.entries, harnessStubs: ld.stubs,
		nWorkers: nWorkers, solverName: solverName, timeoutMs: 30000, covers: map[string]bool{}, nondetInfo: map[string]*NondetInfo{},
		notes: map[string]bool{}, known: loadKnown(), knownHit: map[string]bool{}}
	d.cond = sync.NewCond(&d.mu)
	d.preemptOverride, _ = strconv.Atoi(os.Getenv("VERIF_PREEMPT"))
	if ms, err := strconv.Atoi(os.Getenv("VERIF_QTIMEOUT_MS")); err == nil && ms > 0 {
		d.timeoutMs = ms // testing aid: a tiny per-query timeout exercises the fresh-solver retry path
	}
	d.floatConsts = collectFloatConsts(ld)
	deadline := t0.Add(time.Duration(budget) * time.Second)

	var workers []*Worker     // workers of the entry being explored
	var allWorkers []*Worker  // every worker created (for statistics)
	var wmu sync.Mutex
	defer func() {
		for _, w := range allWorkers {
			w.solver.Close()
		}
	}()

	// watchdog: when the budget is exhausted, kill the solver processes so that pending queries
	// return (as inconclusive) instead of holding the check for their individual timeouts
	go func() {
		time.Sleep(time.Until(deadline) + 5*time.Second)
		d.mu.Lock()
		d.deadlineHit = true
		d.stop = true
		d.mu.Unlock()
		wmu.Lock()
		for _, w := range workers {
			w.solver.Kill()
		}
		wmu.Unlock()
	}()
	ran := 0
	missingCovers := []string{}
	for _, e := range ld.entries {
		if !e.Tiers[tier] || (only != "" && e.Name != only) {
			continue
		}
		ran++
		te := time.Now()
		before := d.states
		d.stack = [][]Decision{{}}
		if px := os.Getenv("VERIF_PREFIX"); px != "" {
			// debugging aid: start the exploration from one given decision prefix
			var pre []Decision
			for _, f := range strings.Fields(px) {
				n, _ := strconv.Atoi(f[1:])
				dd := Decision{K: f[0], C: n, N: 2}
				if f[0] == 'v' {
					c, val, _ := strings.Cut(f[1:], "=")
					dd.C, _ = strconv.Atoi(c)
					dd.V = val
				}
				pre = append(pre, dd)
			}
			d.stack = [][]Decision{pre}
			e.MaxRuns = 1
		}
		d.active = 0
		d.stop = false
		d.dporNodes = nil
		// fresh term tables and solver processes per entry (encoding options differ per entry)
		wmu.Lock()
		workers = nil
		for i := 0; i < nWorkers; i++ {
			w, err := d.newWorker(i)
			if err != nil {
				wmu.Unlock()
				fmt.Fprintf(os.Stderr, "gosym: cannot start solver: %v\n", err)
				return 2
			}
			w.tc.noEps = e.Float == "mono"
			if len(e.Stubs) > 0 {
				m := map[string]*ssa.Function{}
				for k, v := range d.harnessStubs {
					m[k] = v
				}
				for k, v := range e.Stubs {
					m[k] = v
				}
				w.harnessStubs = m
			}
			workers = append(workers, w)
			allWorkers = append(allWorkers, w)
		}
		wmu.Unlock()
		var wg sync.WaitGroup
		for _, w := range workers {
			wg.Add(1)
			go func(w *Worker) {
				defer wg.Done()
				d.workerLoop(w, e, deadline)
			}(w)
		}
		wg.Wait()
		fmt.Fprintf(os.Stderr, "gosym: %s: %d paths (%d sleep-set blocked so far), %.1fs\n", e.Name, d.states-before, d.pruned, time.Since(te).Seconds())
		if e.Native && len(d.inconclusive) == 0 && !d.deadlineHit {
			if ins := d.nativeInputs[e.Name]; len(ins) > 0 {
				tn := time.Now()
				nr := d.nativeRun(e, ins)
				if len(nr.failed) > 0 && nr.buildErr == "" {
					// a disagreement must be reproducible to count (native runs see the real scheduler, clock
					// granularity and random source): run the same inputs once more
					if again := d.nativeRun(e, ins); len(again.failed) == 0 && again.buildErr == "" {
						d.nativeLog = append(d.nativeLog, fmt.Sprintf("%s: a first native run disagreed on %d path(s) but an identical second run agreed on all (non-deterministic native behaviour, not counted)", e.Name, len(nr.failed)))
						nr = again
					}
				}
				d.nativeValidated += nr.ran
				d.nativeLog = append(d.nativeLog, fmt.Sprintf("%s: %d sampled paths re-run natively (go test -overlay), %d agreed, %.1fs", e.Name, len(ins), nr.ran, time.Since(tn).Seconds()))
				fmt.Fprintf(os.Stderr, "gosym: %s: native differential validation: %d/%d sampled paths agree (%.1fs)\n", e.Name, nr.ran, len(ins), time.Since(tn).Seconds())
				if nr.buildErr != "" {
					d.inconclusive = append(d.inconclusive, e.Name+": native differential validation could not run: "+nr.buildErr)
				}
				for _, f := range nr.failed {
					d.inconclusive = append(d.inconclusive, e.Name+": native run disagrees with the symbolic execution (translator or stub fault, not a finding): "+f)
				}
			}
		}
		for _, c := range e.Covers {
			if !d.covers[e.Name+":"+c] {
				missingCovers = append(missingCovers, e.Name+":"+c)
			}
		}
		for _, w := range workers {
			w.solver.Close()
		}
		if d.deadlineHit || len(d.inconclusive) > 0 {
			break
		}
	}
	for _, w := range allWorkers {
		w.foldSolverStats()
		d.queries += w.accQ
		d.qSat += w.accSat
		d.qUnsat += w.accUnsat
		d.qUnknown += w.accUnknown
		d.qRetried += w.accRetried
		d.solverTime += w.accElapsed
	}

	// classify
	exit := 0
	verdict := "held within bounds"
	var unknownViol []*Violation
	for _, v := range d.violations {
		if !v.Confirmed {
			// a solver model that does not reproduce under concrete re-execution is a fault of the
			// (over-approximating) encoding or of a stub, never a finding (DESIGN 2.11)
			d.inconclusive = append(d.inconclusive, "candidate counterexample did not reproduce concretely: "+v.Msg+fmt.Sprintf(" inputs=%v", v.Model))
			continue
		}
		if d.isKnown(v) {
			for _, k := range d.known {
				if k.kind == "finding" && k.prop == prop && strings.Contains(v.Sig, k.sig) && !d.knownHit[k.sig] {
					d.knownHit[k.sig] = true
					fmt.Printf("KNOWN-FINDING: property=%s %s\n", prop, k.text)
				}
			}
			continue
		}
		unknownViol = append(unknownViol, v)
	}
	if len(unknownViol) > 0 {
		exit = 1
		verdict = "violation"
		os.MkdirAll(filepath.Join(verifDir, "replays", prop), 0o755)
		seen := map[string]bool{}
		n := 0
		for _, v := range unknownViol {
			if seen[v.Sig] {
				continue
			}
			seen[v.Sig] = true
			n++
			path := filepath.Join(verifDir, "replays", prop, fmt.Sprintf("%d.json", n))
			entryName, _, _ := strings.Cut(v.Msg, ":")
			rep := map[string]interface{}{
				"property": prop, "entry": entryName, "kind": v.Kind, "message": v.Msg, "signature": v.Sig, "position": v.Pos,
				"inputs": v.Model, "schedule": encodeTrace(filterSched(v.Trace)), "decisions": fmtTrace(v.Trace),
				"confirmed_by_concrete_reexecution": v.Confirmed,
				"native_replay":                     v.Native,
				"replay_cmd":                        fmt.Sprintf("%s/bin/gosym replay %s", verifDir, path),
			}
			b, _ := json.MarshalIndent(rep, "", " ")
			os.WriteFile(path, append(b, '\n'), 0o644)
			fmt.Printf("VIOLATION property=%s replay=%s\n", prop, path)
			fmt.Fprintf(os.Stderr, "  %s\n  inputs: %v\n  confirmed by concrete re-execution: %v\n", v.Msg, v.Model, v.Confirmed)
			if v.Native != "" {
				fmt.Fprintf(os.Stderr, "  %s\n", v.Native)
			}
		}
	}
	if exit == 0 {
		switch {
		case ran == 0:
			exit, verdict = 2, "inconclusive: no entry for this tier"
		case len(d.inconclusive) > 0:
			exit, verdict = 2, "inconclusive: "+d.inconclusive[0]
		case d.deadlineHit:
			exit, verdict = 2, "inconclusive: wall-clock budget exhausted before the exploration finished"
		case d.runsCapHit:
			exit, verdict = 2, "inconclusive: path cap reached before the exploration finished"
		case len(missingCovers) > 0:
			exit, verdict = 2, "vacuous: cover labels not reached: "+strings.Join(missingCovers, ", ")
		case d.qUnknown > 0:
			exit, verdict = 2, "inconclusive: solver returned unknown"
		}
	}
	obligations := d.asserts
	discharged := d.asserts
	if exit != 0 {
		discharged = 0
	}
	if evidence {
		d.writeEvidence(allWorkers, time.Since(t0), verdict, obligations, discharged, 0)
	}
	fmt.Fprintf(os.Stderr, "gosym: %s %s: %s; paths=%d instr=%d assertions=%d (symbolic %d) queries=%d (unknown %d, retried %d) solver=%.1fs load=%.1fs wall=%.1fs\n",
		prop, tier, verdict, d.states, d.transitions, d.asserts, d.assertsSym, d.queries, d.qUnknown, d.qRetried, d.solverTime.Seconds(), loadT.Seconds(), time.Since(t0).Seconds())
	if outcomeLog {
		var ks []string
		for k := range d.outcomes {
			ks = append(ks, k)
		}
		sort.Strings(ks)
		for _, k := range ks {
			fmt.Fprintf(os.Stderr, "OUTCOME %s\n", k)
		}
	}
	if exit == 2 {
		fmt.Printf("INCONCLUSIVE property=%s reason=%q\n", prop, verdict)
		for i, m := range d.inconclusive {
			if i < 5 {
				fmt.Fprintln(os.Stderr, "  ", m)
			}
		}
	}
	return exit
}

func encodeTrace(ds []Decision) []string {
	out := make([]string, len(ds))
	for i, d := range ds {
		out[i] = fmt.Sprintf("%c:%d:%d", d.K, d.C, d.N)
		if d.G {
			out[i] += ":g"
		}
	}
	return out
}

func decodeTrace(ss []string) []Decision {
	var out []Decision
	for _, s := range ss {
		p := strings.Split(s, ":")
		if (len(p) != 3 && len(p) != 4) || len(p[0]) != 1 {
			continue
		}
		c, _ := strconv.Atoi(p[1])
		n, _ := strconv.Atoi(p[2])
		out = append(out, Decision{K: p[0][0], C: c, N: n, G: len(p) == 4 && p[3] == "g"})
	}
	return out
}

// ---------- replay: deterministic concrete re-execution of a recorded violation

func runReplay(path, solverName, repo string) int {
	b, err := os.ReadFile(path)
	if err != nil {
		fmt.Fprintln(os.Stderr, err)
		return 2
	}
	var rep struct {
		Property string            `json:"property"`
		Entry    string            `json:"entry"`
		Inputs   map[string]string `json:"inputs"`
		Schedule []string          `json:"schedule"`
		Sig      string            `json:"signature"`
	}
	if err := json.Unmarshal(b, &rep); err != nil {
		fmt.Fprintln(os.Stderr, err)
		return 2
	}
	ld, err := loadHarness(rep.Property, repo)
	if err != nil {
		fmt.Fprintln(os.Stderr, err)
		return 2
	}
	d := &Driver{prop: rep.Property, tierName: "quick", repo: repo, prog: ld.prog, entries: ld.entries, harnessStubs: ld.stubs, solverName: solverName, timeoutMs: 30000,
		covers: map[string]bool{}, nondetInfo: map[string]*NondetInfo{}, notes: map[string]bool{}}
	d.cond = sync.NewCond(&d.mu)
	w, err := d.newWorker(0)
	if err != nil {
		fmt.Fprintln(os.Stderr, err)
		return 2
	}
	defer w.solver.Close()
	for _, e := range ld.entries {
		if e.Name != rep.Entry {
			continue
		}
		os.Setenv("VERIF_TRACE_CALLS", "1")
		r := w.execute(e, decodeTrace(rep.Schedule), rep.Inputs)
		if r.viol != nil {
			fmt.Printf("REPRODUCED property=%s %s\n  at %s\n  inputs=%v\n", rep.Property, r.viol.Msg, r.viol.Pos, rep.Inputs)
			for _, o := range r.obs {
				fmt.Println("  observed:", o)
			}
			return 1
		}
		fmt.Printf("NOT-REPRODUCED property=%s (%s)\n", rep.Property, r.inconclusive)
		return 0
	}
	fmt.Fprintln(os.Stderr, "entry not found:", rep.Entry)
	return 2
}

// collectFloatConsts gathers the finite float constants of the packages under verification (and of
// the harness): they are the anchors of the E2 float encoding (DESIGN 2.3).
func collectFloatConsts(ld *loaded) []float64 {
	pkgs := map[*ssa.Package]bool{}
	for _, e := range ld.entries {
		if e.Fn != nil && e.Fn.Pkg != nil {
			pkgs[e.Fn.Pkg] = true
		}
	}
	seen := map[float64]bool{}
	var out []float64
	visit := func(fn *ssa.Function) {
		for _, b := range fn.Blocks {
			for _, ins := range b.Instrs {
				var buf [8]*ssa.Value
				for _, op := range ins.Operands(buf[:0]) {
					c, ok := (*op).(*ssa.Const)
					if !ok || c.Value == nil {
						continue
					}
					if bt, ok := c.Type().Underlying().(*types.Basic); ok && bt.Info()&types.IsFloat != 0 {
						f := c.Float64()
						if !math.IsNaN(f) && !math.IsInf(f, 0) && !seen[f] && len(out) < 64 {
							seen[f] = true
							out = append(out, f)
						}
					}
				}
			}
		}
	}
	for fn := range ssautil.AllFunctions(ld.prog) {
		if fn.Pkg != nil && pkgs[fn.Pkg] {
			visit(fn)
		} else if fn.Pkg == nil && fn.Origin() != nil && fn.Origin().Pkg != nil && pkgs[fn.Origin().Pkg] {
			visit(fn)
		}
	}
	sort.Float64s(out)
	return out
}
