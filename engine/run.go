package main

// One Run = one execution of a harness entry under one decision vector (DESIGN 2.2).

import (
	"strconv"
	"fmt"
	"os"
	"math/big"
	"sort"
	"strings"
)

type Decision struct {
	K byte   // 'b' branch, 'v' concretised value, 's' schedule, 'c' choose/map-order
	C int    // choice
	V string // value for 'v'
	N int    // number of alternatives (informational)
	S []int  // DPOR: goroutines already scheduled at this node (they sleep in this alternative)
	G bool   // DPOR: C is a goroutine id, not an index into the candidate list
}

func (d Decision) String() string {
	if d.K == 'v' {
		return fmt.Sprintf("v%d=%s", d.C, d.V)
	}
	return fmt.Sprintf("%c%d", d.K, d.C)
}

type NondetInfo struct {
	Name   string
	Sort   string
	Lo, Hi string
	term   *Term
	atom   bool // an atom string: its model value is translated back to text where it equals a known string
}

type Violation struct {
	Kind   string // "assert", "panic", "deadlock", "leak"
	Msg    string
	Pos    string
	Sig    string
	Native string // outcome of the native replay, when the entry supports one
	Model  map[string]string
	Trace  []Decision
	Confirmed bool
}

type runAbort struct{ reason string } // ends the run silently (path infeasible, or finished)

type Run struct {
	w       *Worker
	tc      *TermCtx
	entry   *HarnessEntry
	prefix  []Decision
	pos     int
	trace   []Decision
	alts    [][]Decision
	pc      []*Term
	nondetN map[string]int
	nondets []*NondetInfo
	concrete map[string]string // replay mode: fixed nondet values (nil in symbolic mode)
	steps   int64
	covers  map[string]bool
	asserts int // assertions checked on this path
	assertsSym int
	viol    *Violation
	inconclusive string
	interp  *interpreter
	sched   *Sched
	now     value // virtual clock (ns), int64 or symInt
	obs     []string // observation digest (rt.Observe)
	sample  map[string]string
	maxSteps int64
	redis   interface{}
	violNeedsModel bool
	curFr   *frame
	notes   []string
}

func (r *Run) replaying() bool { return r.pos < len(r.prefix) }

func (r *Run) record(d Decision) {
	r.trace = append(r.trace, d)
	r.pos++
}

func (r *Run) pushAlt(d Decision) {
	if r.concrete != nil {
		return
	}
	alt := make([]Decision, len(r.trace), len(r.trace)+1)
	copy(alt, r.trace)
	alt = append(alt, d)
	r.alts = append(r.alts, alt)
}

func (r *Run) check(extra ...*Term) Result {
	res, _ := r.w.solver.Check(r.pc, nil, extra...)
	return res
}

func (r *Run) addPC(t *Term) {
	if t.isCon {
		if !t.bval {
			panic(runAbort{"infeasible"})
		}
		return
	}
	r.pc = append(r.pc, t)
}

// branch decides a symbolic condition; the taken side is added to the path condition.
func (r *Run) branch(t *Term) bool {
	if t.isCon {
		return t.bval
	}
	tc := r.tc
	if r.concrete != nil {
		panic(unsupported{"symbolic branch condition during concrete replay"})
	}
	if r.replaying() {
		d := r.prefix[r.pos]
		if d.K != 'b' {
			panic(fmt.Sprintf("decision vector mismatch: want branch, have %v at %d (prefix %s) at %s", d, r.pos, fmtTrace(r.prefix), r.where()))
		}
		r.record(d)
		if d.C == 1 {
			if d.N == 2 {
				r.addPC(t)
			}
			return true
		}
		if d.N == 2 {
			r.addPC(tc.Not(t))
		}
		return false
	}
	rt := r.check(t)
	if rt == Unknown {
		r.inconclusive = "solver returned unknown on a branch feasibility query at " + r.where()
		panic(runAbort{"inconclusive"})
	}
	if rt == Unsat {
		r.record(Decision{K: 'b', C: 0, N: 1})
		return false
	}
	rf := r.check(tc.Not(t))
	if rf == Unknown {
		r.inconclusive = "solver returned unknown on a branch feasibility query"
		panic(runAbort{"inconclusive"})
	}
	if rf == Unsat {
		r.record(Decision{K: 'b', C: 1, N: 1})
		return true
	}
	r.pushAlt(Decision{K: 'b', C: 0, N: 2})
	r.record(Decision{K: 'b', C: 1, N: 2})
	r.addPC(t)
	return true
}

// mustHold reports whether t is implied by the path condition (no fork).
func (r *Run) mustHold(t *Term) bool {
	if t.isCon {
		return t.bval
	}
	res := r.check(r.tc.Not(t))
	if res == Unknown {
		r.inconclusive = "solver returned unknown on a side obligation"
		panic(runAbort{"inconclusive"})
	}
	return res == Unsat
}

// mustHoldQuiet is mustHold for optional simplifications: an unknown answer just means "not shown".
func (r *Run) mustHoldQuiet(t *Term) bool {
	if t.isCon {
		return t.bval
	}
	res := r.check(r.tc.Not(t))
	if res == Unknown && r.w.solver.unknown > 0 {
		r.w.solver.unknown-- // an optional simplification that could not be justified is not a failed obligation
		r.notes = append(r.notes, "an optional arithmetic simplification could not be justified (solver unknown); generic encoding used")
	}
	return res == Unsat
}

// concretize enumerates the feasible values of an Int term, forking on each.
func (r *Run) concretize(t *Term) *big.Int {
	if t.isCon {
		return t.ival
	}
	tc := r.tc
	for {
		if r.concrete == nil && r.replaying() {
			d := r.prefix[r.pos]
			if d.K != 'v' {
				panic(fmt.Sprintf("decision vector mismatch: want value, have %v at %d", d, r.pos))
			}
			r.record(d)
			v, _ := new(big.Int).SetString(d.V, 10)
			eq := tc.Eq(t, tc.Int(v))
			if d.C == 1 {
				if d.N == 2 {
					r.addPC(eq)
				}
				return v
			}
			r.addPC(tc.Not(eq))
			continue
		}
		res, model := r.w.solver.Check(r.pc, []*Term{t})
		if res != Sat || model == nil {
			if res == Unsat {
				panic(runAbort{"infeasible"})
			}
			r.inconclusive = "solver returned unknown while concretising a value"
			panic(runAbort{"inconclusive"})
		}
		v, ok := new(big.Int).SetString(model[t.name], 10)
		if !ok {
			r.inconclusive = "cannot parse model value " + model[t.name]
			panic(runAbort{"inconclusive"})
		}
		eq := tc.Eq(t, tc.Int(v))
		if r.concrete != nil {
			return v
		}
		other := r.check(tc.Not(eq))
		if other == Unknown {
			r.inconclusive = "solver returned unknown while concretising a value"
			panic(runAbort{"inconclusive"})
		}
		if other == Unsat {
			r.record(Decision{K: 'v', C: 1, V: v.String(), N: 1})
			return v
		}
		r.pushAlt(Decision{K: 'v', C: 0, V: v.String(), N: 2})
		r.record(Decision{K: 'v', C: 1, V: v.String(), N: 2})
		r.addPC(eq)
		return v
	}
}

// choose is an unconditional n-way decision (scheduler, Choose, map order).
func (r *Run) choose(kind byte, n int) int {
	if n <= 1 {
		return 0
	}
	if r.replaying() {
		// in concrete replay the vector has been filtered to non-branch decisions
		d := r.prefix[r.pos]
		if d.K != kind {
			panic(fmt.Sprintf("decision vector mismatch: want %c, have %v at %d", kind, d, r.pos))
		}
		r.record(d)
		if d.C >= n {
			panic(fmt.Sprintf("decision vector mismatch: choice %d of %d", d.C, n))
		}
		return d.C
	}
	for i := n - 1; i >= 1; i-- {
		r.pushAlt(Decision{K: kind, C: i, N: n})
	}
	r.record(Decision{K: kind, C: 0, N: n})
	return 0
}

// ---------- nondeterministic inputs

func (r *Run) nondetName(label string) string {
	n := r.nondetN[label]
	r.nondetN[label] = n + 1
	if n == 0 {
		return label
	}
	return fmt.Sprintf("%s#%d", label, n)
}

// nondetUnname undoes the counter step of a nondetName call (the name was only peeked at).
func (r *Run) nondetUnname(label string) { r.nondetN[label]-- }

func (r *Run) newNondet(label string, s Sort, lo, hi *big.Int) *Term {
	name := r.nondetName(label)
	if r.concrete != nil {
		ni := &NondetInfo{Name: name, Sort: s.String()}
		r.nondets = append(r.nondets, ni)
		v, ok := r.concrete[name]
		switch s {
		case SInt:
			b := new(big.Int)
			if ok {
				b.SetString(v, 10)
			} else if lo != nil {
				b.Set(lo)
			}
			ni.term = r.tc.Int(b)
		case SBool:
			ni.term = r.tc.Bool(ok && (v == "1" || v == "true"))
		case SReal:
			q := new(big.Rat)
			if ok {
				q.SetString(v)
			}
			ni.term = r.tc.Real(q)
		}
		return ni.term
	}
	vname := "n_" + name
	if lo != nil || hi != nil {
		// bounds are part of the variable's identity: the same label may be drawn with
		// different (path-dependent) ranges in different runs
		vname += "@"
		if lo != nil {
			vname += lo.String()
		}
		vname += ":"
		if hi != nil {
			vname += hi.String()
		}
	}
	t := r.tc.Var(vname, s, lo, hi)
	ni := &NondetInfo{Name: name, Sort: s.String(), term: t}
	if lo != nil {
		ni.Lo = lo.String()
	}
	if hi != nil {
		ni.Hi = hi.String()
	}
	r.nondets = append(r.nondets, ni)
	return t
}

func (r *Run) nondetTerms() []*Term {
	var ts []*Term
	for _, n := range r.nondets {
		if n.term != nil && !n.term.isCon {
			ts = append(ts, n.term)
		}
	}
	return ts
}

// ---------- assertions

func (r *Run) sigOf(kind, msg string) string { return kind + ":" + msg }

func (r *Run) assert(cond value, msg string, pos string) {
	r.asserts++
	var t *Term
	switch c := cond.(type) {
	case bool:
		if c {
			return
		}
		t = r.tc.False
		if r.concrete == nil && len(r.pc) > 0 {
			// the path itself must still be feasible under the axioms instantiated since it was taken
			if res := r.check(); res == Unsat {
				panic(runAbort{"infeasible"})
			}
		}
	case symBool:
		t = c.t
	default:
		panic(fmt.Sprintf("Assert: not a bool %T", cond))
	}
	r.assertsSym++
	neg := r.tc.Not(t)
	res, model := r.w.solver.Check(r.pc, r.nondetTerms(), neg)
	switch res {
	case Unsat:
		return
	case Unknown:
		r.inconclusive = "solver returned unknown on assertion: " + msg
		panic(runAbort{"inconclusive"})
	}
	// violated
	m := map[string]string{}
	for _, n := range r.nondets {
		if n.term == nil {
			if r.concrete != nil {
				m[n.Name] = r.concrete[n.Name]
			}
		} else if n.term.isCon && n.term.sort == SInt {
			m[n.Name] = n.term.ival.String()
		} else if v, ok := model[n.term.name]; ok {
			m[n.Name] = v
			if n.atom {
				if id, err := strconv.ParseInt(v, 10, 64); err == nil {
					if str, known := r.tc.strByID[id]; known {
						m[n.Name] = "=" + str // the atom equals a concrete string of the run
					}
				}
			}
		}
	}
	r.viol = &Violation{Kind: "assert", Msg: msg, Pos: pos, Sig: r.sigOf("assert", msg), Model: m, Trace: append([]Decision{}, r.trace...)}
	panic(runAbort{"violation"})
}

func (r *Run) assume(cond value) {
	switch c := cond.(type) {
	case bool:
		if !c {
			panic(runAbort{"infeasible"})
		}
	case symBool:
		if !r.replaying() {
			res := r.check(c.t)
			if res == Unsat {
				panic(runAbort{"infeasible"})
			}
			if res == Unknown {
				r.inconclusive = "solver returned unknown on an assumption"
				panic(runAbort{"inconclusive"})
			}
		}
		r.addPC(c.t)
	}
}

func (r *Run) modelSample() map[string]string {
	res, model := r.w.solver.Check(r.pc, r.nondetTerms())
	if res != Sat {
		return nil
	}
	m := map[string]string{}
	for _, n := range r.nondets {
		if n.term == nil {
			if r.concrete != nil {
				m[n.Name] = r.concrete[n.Name]
			}
		} else if n.term.isCon && n.term.sort == SInt {
			m[n.Name] = n.term.ival.String()
		} else if v, ok := model[n.term.name]; ok {
			m[n.Name] = v
			if n.atom {
				if id, err := strconv.ParseInt(v, 10, 64); err == nil {
					if str, known := r.tc.strByID[id]; known {
						m[n.Name] = "=" + str // the atom equals a concrete string of the run
					}
				}
			}
		}
	}
	return m
}

func fmtTrace(ds []Decision) string {
	var sb strings.Builder
	for i, d := range ds {
		if i > 0 {
			sb.WriteByte(' ')
		}
		sb.WriteString(d.String())
	}
	return sb.String()
}

func sortedKeys(m map[string]bool) []string {
	ks := make([]string, 0, len(m))
	for k := range m {
		ks = append(ks, k)
	}
	sort.Strings(ks)
	return ks
}

func (r *Run) where() string {
	if r.curFr == nil {
		return "?"
	}
	if os.Getenv("VERIF_DEBUG") != "" {
		return r.curFr.pos() + "\n" + r.curFr.stack()
	}
	return r.curFr.pos()
}
