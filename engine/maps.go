package main

// Maps are association lists in insertion order with concrete presence; keys may be symbolic.
// Invariant: live keys are pairwise distinct under the path condition (every lookup/insert
// with a symbolic key decides its equality against the live keys, DESIGN 2.3).

import (
	"go/types"
)

type mapEntry struct {
	key, val value
	deleted  bool
}

type gmap struct {
	keyT    types.Type
	entries []*mapEntry
	idx     map[value]*mapEntry // concrete hashable scalar keys
	live    int
	symKeys int // number of live entries with non-indexable keys
}

func makeMap(kt types.Type) *gmap {
	return &gmap{keyT: kt, idx: map[value]*mapEntry{}}
}

func indexableKey(k value) bool {
	switch k.(type) {
	case bool, int, int8, int16, int32, int64, uint, uint8, uint16, uint32, uint64, uintptr, string, *value, *channel, float64, float32:
		return true
	}
	return false
}

func (m *gmap) len() int {
	if m == nil {
		return 0
	}
	return m.live
}

func (m *gmap) find(r *Run, k value) *mapEntry {
	if m == nil {
		return nil
	}
	if indexableKey(k) {
		if e, ok := m.idx[k]; ok {
			return e
		}
		if m.symKeys == 0 {
			return nil
		}
	}
	for _, e := range m.entries {
		if e.deleted {
			continue
		}
		if indexableKey(k) && indexableKey(e.key) {
			continue // both concrete and different (idx miss)
		}
		if r.truth(r.eqv(m.keyT, e.key, k)) {
			return e
		}
	}
	return nil
}

func (m *gmap) lookup(r *Run, k value) (value, bool) {
	if e := m.find(r, k); e != nil {
		return e.val, true
	}
	return nil, false
}

func (m *gmap) insert(r *Run, k, v value) {
	if e := m.find(r, k); e != nil {
		e.val = v
		return
	}
	e := &mapEntry{key: k, val: v}
	m.entries = append(m.entries, e)
	m.live++
	if indexableKey(k) {
		m.idx[k] = e
	} else {
		m.symKeys++
	}
}

func (m *gmap) delete(r *Run, k value) {
	e := m.find(r, k)
	if e == nil {
		return
	}
	e.deleted = true
	m.live--
	if indexableKey(e.key) {
		delete(m.idx, e.key)
	} else {
		m.symKeys--
	}
	if len(m.entries) > 32 && m.live*2 < len(m.entries) {
		n := m.entries[:0]
		for _, x := range m.entries {
			if !x.deleted {
				n = append(n, x)
			}
		}
		m.entries = n
	}
}

type gmapIter struct {
	order []*mapEntry
	i     int
}

func (it *gmapIter) next() tuple {
	for it.i < len(it.order) {
		e := it.order[it.i]
		it.i++
		if e.deleted {
			continue
		}
		return tuple{true, e.key, e.val}
	}
	return tuple{false, nil, nil}
}

// rangeIter snapshots the live entries. Go's iteration order is unspecified: with the harness
// option maporder=perm every permutation of up to 3 live entries is a decision; otherwise
// insertion order is used (and reported as a cut).
func (m *gmap) rangeIter(r *Run) iter {
	it := &gmapIter{}
	if m == nil {
		return it
	}
	for _, e := range m.entries {
		if !e.deleted {
			it.order = append(it.order, e)
		}
	}
	n := len(it.order)
	if r.entry != nil && r.entry.MapOrder == "perm" && n >= 2 {
		if n <= 3 {
			perms := permutations(n)
			p := perms[r.choose('c', len(perms))]
			o := make([]*mapEntry, n)
			for i, j := range p {
				o[i] = it.order[j]
			}
			it.order = o
		} else if r.choose('c', 2) == 1 {
			for i, j := 0, n-1; i < j; i, j = i+1, j-1 {
				it.order[i], it.order[j] = it.order[j], it.order[i]
			}
		}
	}
	return it
}

func permutations(n int) [][]int {
	if n == 1 {
		return [][]int{{0}}
	}
	var out [][]int
	for _, p := range permutations(n - 1) {
		for pos := 0; pos <= len(p); pos++ {
			q := make([]int, 0, n)
			q = append(q, p[:pos]...)
			q = append(q, n-1)
			q = append(q, p[pos:]...)
			out = append(out, q)
		}
	}
	return out
}
