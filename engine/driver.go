package main

// Exploration driver: stateless DFS over decision vectors, sharded over workers.

import (
	"crypto/sha256"
	"encoding/hex"
	"encoding/json"
	"fmt"
	"go/types"
	"os"
	"path/filepath"
	"sort"
	"strings"
	"sync"
	"time"

	"golang.org/x/tools/go/ssa"
)

type HarnessEntry struct {
	Name          string
	Fn            *ssa.Function
	PkgDir        string
	Tiers         map[string]bool
	MapOrder      string
	GoSync        bool
	MaxSteps      int64
	AllowDeadlock bool
	MaxRuns       int
	Covers        []string // labels that must be reached (vacuity guard)
	Native        bool     // a native replay of this harness is possible
	Stubs         map[string]*ssa.Function // entry-specific redirections
	Float         string   // "" = E2 with relative-error bound, "mono" = monotonic anchors only
	Doc           string
	DPOR          bool // dynamic partial-order reduction (all interleavings, race-driven backtracking)
	Preempt       int // preemption bound (0 = unbounded, all interleavings with sleep sets)
	PreemptThorough int // the bound used by the thorough tier
	Recycle       int // restart solver + term context once this many float-axiom terms have accumulated (0 = default: after every run that used float axioms)
}

type Worker struct {
	id           int
	d            *Driver
	tc           *TermCtx
	solver       *Solver
	stdGlobals   map[*ssa.Global]*value
	stdInit      map[*ssa.Package]bool
	stubCache    map[*ssa.Function]stubFn
	harnessStubs map[string]*ssa.Function
	funcs        map[*ssa.Function]bool
	stubsHit     map[string]bool
	cats         []catInfo
	accQ, accSat, accUnsat, accUnknown, accRetried int
	accElapsed   time.Duration
	recycles     int
}

func (w *Worker) foldSolverStats() {
	s := w.solver
	w.accQ += s.queries
	w.accSat += s.sat
	w.accUnsat += s.unsat
	w.accUnknown += s.unknown
	w.accElapsed += s.elapsed
	w.accRetried += s.retried
	s.queries, s.sat, s.unsat, s.unknown, s.elapsed, s.retried = 0, 0, 0, 0, 0, 0
}

// recycle replaces the term context and the solver process by fresh ones. Definitions and the
// instantiated float axioms are global in the solver, so they accumulate over the paths a worker has
// explored and slow every later query down; nothing of a finished run is needed by the next one.
func (w *Worker) recycle() error {
	w.foldSolverStats()
	noEps := w.tc.noEps
	w.solver.Close()
	w.tc = NewTermCtx()
	w.tc.noEps = noEps
	w.cats = nil
	for _, f := range w.d.floatConsts {
		w.tc.RealF(f)
	}
	s, err := NewSolver(w.d.solverName, w.tc, w.d.timeoutMs, "")
	if err != nil {
		return err
	}
	w.solver = s
	w.recycles++
	return nil
}

type catInfo struct{ t, a, b *Term }

// noteCat records a strcat application and instantiates same-prefix / same-suffix injectivity
// against earlier applications (strings: p+x == p+y  =>  x == y).
func (w *Worker) noteCat(t, a, b *Term) {
	for _, c := range w.cats {
		if c.t == t {
			return
		}
	}
	for _, c := range w.cats {
		if c.a == a && c.b != b {
			w.tc.addAxiom(fmt.Sprintf("(assert (=> (= (strcat %s %s) (strcat %s %s)) (= %s %s)))", a.name, b.name, c.a.name, c.b.name, b.name, c.b.name), a, b, c.a, c.b)
		}
		if c.b == b && c.a != a {
			w.tc.addAxiom(fmt.Sprintf("(assert (=> (= (strcat %s %s) (strcat %s %s)) (= %s %s)))", a.name, b.name, c.a.name, c.b.name, a.name, c.a.name), a, b, c.a, c.b)
		}
	}
	w.cats = append(w.cats, catInfo{t, a, b})
}

func (w *Worker) noteFunc(fn *ssa.Function) { w.funcs[fn] = true }
func (w *Worker) noteStub(name string)       { w.stubsHit[name] = true }

var outcomeLog = os.Getenv("VERIF_OUTCOMES") != ""

type Driver struct {
	dporNodes map[nodeID]*dporNode
	outcomes map[string]int
	nativeInputs    map[string][]map[string]string // entry -> sampled input assignments of discharged paths
	nativeValidated int
	nativeLog       []string
	preemptOverride int // VERIF_PREEMPT (probing aid)
	prop      string
	tier      int
	tierName  string
	seed      int64
	repo      string
	prog      *ssa.Program
	entries   []*HarnessEntry
	harnessStubs map[string]*ssa.Function
	nWorkers  int
	solverName string
	timeoutMs int
	known     []knownFinding
	floatConsts []float64

	mu       sync.Mutex
	cond     *sync.Cond
	stack    [][]Decision
	active   int
	stop     bool

	// aggregated results
	states, transitions int64
	asserts, assertsSym int64
	queries, qSat, qUnsat, qUnknown, qRetried int
	solverTime time.Duration
	violations []*Violation
	inconclusive []string
	covers     map[string]bool
	samples    []map[string]interface{}
	nondetInfo map[string]*NondetInfo
	notes      map[string]bool
	maxGoroutines int
	switches   int64
	deadlineHit bool
	runsCapHit bool
	replayed   int
	pruned     int64
	knownHit   map[string]bool
}

type knownFinding struct {
	kind string // "finding" or "fixed"
	prop string
	sig  string
	text string
}

func (d *Driver) newWorker(id int) (*Worker, error) {
	w := &Worker{id: id, d: d, tc: NewTermCtx(), stdGlobals: map[*ssa.Global]*value{}, stdInit: map[*ssa.Package]bool{},
		stubCache: map[*ssa.Function]stubFn{}, harnessStubs: d.harnessStubs, funcs: map[*ssa.Function]bool{}, stubsHit: map[string]bool{}}
	logPath := ""
	if os.Getenv("VERIF_SMTLOG") != "" && id == 0 {
		logPath = filepath.Join(os.Getenv("VERIF_SMTLOG"), d.prop+".smt2")
	}
	for _, f := range d.floatConsts {
		w.tc.RealF(f)
	}
	s, err := NewSolver(d.solverName, w.tc, d.timeoutMs, logPath)
	if err != nil {
		return nil, err
	}
	w.solver = s
	return w, nil
}

// execute performs one run.
func (w *Worker) execute(entry *HarnessEntry, prefix []Decision, concrete map[string]string) *Run {
	r := &Run{w: w, tc: w.tc, entry: entry, prefix: prefix, nondetN: map[string]int{}, covers: map[string]bool{},
		concrete: concrete, maxSteps: entry.MaxSteps, now: initialNow}
	if r.maxSteps == 0 {
		r.maxSteps = 2000000
	}
	prog := w.d.prog
	r.interp = &interpreter{run: r, prog: prog, globals: map[*ssa.Global]*value{}, pkgInit: map[*ssa.Package]int{},
		sizes: &types.StdSizes{WordSize: 8, MaxAlign: 8}, tracing: os.Getenv("VERIF_TRACE") != ""}
	if rp := prog.ImportedPackage("runtime"); rp != nil {
		r.interp.runtimeErrorString = rp.Type("errorString").Object().Type()
	} else {
		r.interp.runtimeErrorString = types.Typ[types.String]
	}
	r.sched = newSched(r)
	main := r.sched.newGoroutine("main")
	main.started = true
	r.sched.cur = main
	r.sched.hostWG.Add(1)
	go func() {
		defer r.sched.hostWG.Done()
		r.sched.runGoroutine(main, true, func() {
			root := &frame{i: r.interp, g: main}
			call(r.interp, root, 0, entry.Fn, nil)
			if !entry.AllowDeadlock {
				// nothing: goroutines still alive are reported by harness via rt.Live / AssertQuiescent
			}
		})
	}()
	<-r.sched.finished
	r.sched.hostWG.Wait()
	return r
}

func filterSched(tr []Decision) []Decision {
	var out []Decision
	for _, d := range tr {
		if d.K == 's' || d.K == 'c' {
			out = append(out, d)
		}
	}
	return out
}

func (d *Driver) push(p []Decision) {
	d.mu.Lock()
	d.stack = append(d.stack, p)
	d.mu.Unlock()
	d.cond.Signal()
}

func (d *Driver) workerLoop(w *Worker, entry *HarnessEntry, deadline time.Time) {
	for {
		d.mu.Lock()
		for len(d.stack) == 0 && d.active > 0 && !d.stop {
			d.cond.Wait()
		}
		if d.stop || (len(d.stack) == 0 && d.active == 0) {
			d.mu.Unlock()
			d.cond.Broadcast()
			return
		}
		prefix := d.stack[len(d.stack)-1]
		d.stack = d.stack[:len(d.stack)-1]
		d.active++
		d.mu.Unlock()

		r := w.execute(entry, prefix, nil)
		var sample map[string]string
		if r.viol != nil && r.viol.Model == nil && r.concrete == nil {
			r.viol.Model = r.modelSample()
		}
		d.mu.Lock()
		takeSample := r.viol == nil && r.inconclusive == "" && len(d.samples) < 6 && (d.states%7 == 0)
		d.mu.Unlock()
		if takeSample {
			sample = r.modelSample()
		}
		if entry.Native && r.viol == nil && r.inconclusive == "" && !r.sched.pruned {
			d.mu.Lock()
			lim := 4
			if d.tier > 0 {
				lim = 16
			}
			want := len(d.nativeInputs[entry.Name]) < lim && (d.states%5 == 0 || d.states < 3)
			d.mu.Unlock()
			if want {
				if in := r.modelSample(); in != nil {
					d.mu.Lock()
					if d.nativeInputs == nil {
						d.nativeInputs = map[string][]map[string]string{}
					}
					d.nativeInputs[entry.Name] = append(d.nativeInputs[entry.Name], in)
					d.mu.Unlock()
				}
			}
		}
		if r.viol != nil {
			d.confirm(w, entry, r)
		}

		if lim := entry.Recycle; (lim > 0 && len(w.tc.flTerms) >= lim) || len(w.tc.flTerms) >= 1 || len(w.tc.all) > 300000 {
			if err := w.recycle(); err != nil {
				r.inconclusive = "cannot restart solver: " + err.Error()
			}
		}
		d.mu.Lock()
		d.active--
		if r.sched.pruned {
			d.pruned++
		} else if outcomeLog {
			// validation aid: the set of distinct run outcomes must not depend on the reduction
			var ks []string
			for c := range r.covers {
				ks = append(ks, c)
			}
			sort.Strings(ks)
			o := entry.Name + "|" + strings.Join(ks, ",") + "|" + strings.Join(r.obs, ",")
			if r.viol != nil {
				o += "|" + r.viol.Kind + ":" + r.viol.Msg
			}
			if r.inconclusive != "" {
				o += "|inconclusive"
			}
			if d.outcomes == nil {
				d.outcomes = map[string]int{}
			}
			d.outcomes[o]++
		}
		d.states++
		d.transitions += r.steps
		d.asserts += int64(r.asserts)
		d.assertsSym += int64(r.assertsSym)
		d.switches += int64(r.sched.switches)
		if r.sched.maxGs > d.maxGoroutines {
			d.maxGoroutines = r.sched.maxGs
		}
		for c := range r.covers {
			d.covers[entry.Name+":"+c] = true
		}
		for _, n := range r.nondets {
			d.nondetInfo[entry.Name+":"+n.Name] = n
		}
		for _, n := range r.notes {
			d.notes[n] = true
		}
		if sample != nil {
			d.samples = append(d.samples, map[string]interface{}{"entry": entry.Name, "decisions": fmtTrace(r.trace), "inputs": sample, "observations": r.obs})
		}
		if r.inconclusive != "" {
			d.inconclusive = append(d.inconclusive, entry.Name+": "+r.inconclusive+" [path "+fmtTrace(r.trace)+"]")
			if len(d.inconclusive) > 20 {
				d.stop = true
			}
		}
		if r.viol != nil {
			r.viol.Msg = entry.Name + ": " + r.viol.Msg
			d.violations = append(d.violations, r.viol)
			if d.countUnknownViolations() >= 3 && !outcomeLog {
				d.stop = true
			}
		}
		for _, a := range r.alts {
			d.stack = append(d.stack, a)
		}
		if isDPOR(entry) && d.preemptOverride == 0 && !noSleep {
			for _, a := range d.dporBacktracks(r) {
				d.stack = append(d.stack, a)
			}
		}
		if time.Now().After(deadline) {
			d.deadlineHit = true
			d.stop = true
		}
		if entry.MaxRuns > 0 && d.states >= int64(entry.MaxRuns) && len(d.stack) > 0 {
			d.runsCapHit = true
			d.stop = true
		}
		d.mu.Unlock()
		d.cond.Broadcast()
	}
}

func (d *Driver) countUnknownViolations() int {
	n := 0
	for _, v := range d.violations {
		if v.Confirmed && !d.isKnown(v) {
			n++
		}
	}
	return n
}

func (d *Driver) isKnown(v *Violation) bool {
	for _, k := range d.known {
		if k.kind == "finding" && k.prop == d.prop && strings.Contains(v.Sig, k.sig) {
			return true
		}
	}
	return false
}

// confirm re-executes the violating path with every input fixed to the model value: the
// interpreter then runs on concrete host values only (no solver), following the same schedule.
func (d *Driver) confirm(w *Worker, entry *HarnessEntry, r *Run) {
	v := r.viol
	if v.Model == nil {
		v.Model = map[string]string{}
	}
	r2 := w.execute(entry, filterSched(v.Trace), v.Model)
	if r2.viol != nil && r2.viol.Kind == v.Kind && sigBase(r2.viol.Sig) == sigBase(v.Sig) {
		v.Confirmed = true
	} else if r2.viol != nil {
		v.Confirmed = false
		v.Msg += fmt.Sprintf(" [concrete re-execution ended differently: %s]", r2.viol.Msg)
	} else {
		v.Msg += " [concrete re-execution did not reproduce: " + r2.inconclusive + "]"
	}
	if v.Confirmed && entry.Native && v.Kind == "assert" {
		// replay on the natively compiled code with the model's inputs (DESIGN 2.11)
		nr := d.nativeRun(entry, []map[string]string{v.Model})
		switch {
		case len(nr.failed) == 1:
			v.Native = "reproduced natively: " + nr.failed[0]
		case nr.ran == 1:
			v.Confirmed = false
			v.Msg += " [the counterexample does NOT reproduce on the natively compiled code: translator or stub fault]"
		default:
			v.Native = "native replay could not run: " + nr.buildErr
		}
	}
	d.mu.Lock()
	d.replayed++
	d.mu.Unlock()
}

func sigBase(s string) string { return s }

// ---------- evidence

func fileHash(path string) string {
	b, err := os.ReadFile(path)
	if err != nil {
		return ""
	}
	h := sha256.Sum256(b)
	return hex.EncodeToString(h[:8])
}

func (d *Driver) writeEvidence(workers []*Worker, wall time.Duration, verdict string, obligations, discharged int64, nativeValidated int) {
	funcs := map[string]string{}
	stubs := map[string]bool{}
	for _, w := range workers {
		for fn := range w.funcs {
			pos := d.prog.Fset.Position(fn.Pos())
			file := pos.Filename
			if strings.HasPrefix(file, d.repo) && !strings.Contains(file, "zz_verif_") && !strings.Contains(file, "internal/verifrt") {
				funcs[fn.String()] = strings.TrimPrefix(file, d.repo+"/")
			}
		}
		for s := range w.stubsHit {
			stubs[s] = true
		}
	}
	var fnList []string
	fileSet := map[string]bool{}
	for f, file := range funcs {
		fnList = append(fnList, f)
		fileSet[file] = true
	}
	sort.Strings(fnList)
	files := map[string]string{}
	for f := range fileSet {
		files[f] = fileHash(filepath.Join(d.repo, f))
	}
	bounds := map[string]string{}
	for k, n := range d.nondetInfo {
		b := n.Sort
		if n.Lo != "" || n.Hi != "" {
			b += " [" + n.Lo + ", " + n.Hi + "]"
		}
		bounds[k] = b
	}
	var entryNames []string
	for _, e := range d.entries {
		if e.Tiers[d.tierName] {
			entryNames = append(entryNames, e.Name)
		}
	}
	samples := d.samples
	if len(samples) == 0 {
		samples = []map[string]interface{}{{"note": "no satisfiable sample recorded"}}
	}
	var viols []map[string]interface{}
	for _, v := range d.violations {
		viols = append(viols, map[string]interface{}{"kind": v.Kind, "msg": v.Msg, "sig": v.Sig, "model": v.Model, "confirmed_by_concrete_reexecution": v.Confirmed, "known": d.isKnown(v)})
	}
	var notes []string
	for n := range d.notes {
		notes = append(notes, n)
	}
	sort.Strings(notes)
	schedBounds := map[string]string{}
	for _, e := range d.entries {
		if !e.Tiers[d.tierName] {
			continue
		}
		switch b := d.preemptBound(e); {
		case e.GoSync:
			schedBounds[e.Name] = "sequential (go statements run inline)"
		case isDPOR(e):
			schedBounds[e.Name] = "all interleavings at synchronisation points (dynamic partial-order reduction with sleep sets)"
		case b > 0:
			schedBounds[e.Name] = fmt.Sprintf("all schedules with at most %d preemption(s); switches at blocking points are free", b)
		default:
			schedBounds[e.Name] = "all interleavings at synchronisation points (sleep-set reduced)"
		}
	}
	cov := map[string]interface{}{
		"schedule_bounds":               schedBounds,
		"states":                        d.states,
		"transitions":                   d.transitions,
		"traces_validated_against_impl": d.nativeValidated,
		"native_differential_runs":      d.nativeLog,
		"samples":                       samples,
		"obligations":                   obligations,
		"discharged":                    discharged,
		"exhaustive":                    !d.deadlineHit && !d.runsCapHit && len(d.inconclusive) == 0,
		"explanation":                   "states = symbolic paths (decision vectors) executed to completion; transitions = SSA instructions interpreted; obligations = assertion instances checked on those paths (symbolic ones decided by the solver as pc AND NOT assertion); every path condition was solver-checked for feasibility at each symbolic branch",
		"entries":                       entryNames,
		"functions_encoded":             fnList,
		"source_files_sha256_8":         files,
		"bounds":                        bounds,
		"stubs":                         keysOf(stubs),
		"cover_labels_reached":          sortedKeys(d.covers),
		"solver":                        d.solverName,
		"solver_queries":                map[string]int{"total": d.queries, "sat": d.qSat, "unsat": d.qUnsat, "unknown": d.qUnknown, "decided_by_fresh_solver_retry": d.qRetried},
		"solver_time_s":                 d.solverTime.Seconds(),
		"assertions_checked":            d.asserts,
		"assertions_symbolic":           d.assertsSym,
		"goroutines_max":                d.maxGoroutines,
		"context_switches":              d.switches,
		"sleep_set_blocked_runs":        d.pruned,
		"concrete_reexecutions":         d.replayed,
		"verdict":                       verdict,
		"inconclusive":                  d.inconclusive,
		"violations_detail":             viols,
		"engine_notes":                  notes,
	}
	ev := map[string]interface{}{
		"property_id": d.prop,
		"tier":        d.tierName,
		"seed":        d.seed,
		"level":       "model_checking",
		"coverage":    cov,
		"assumptions": d.assumptions(),
		"wall_s":      wall.Seconds(),
		"violations":  d.countUnknownViolations(),
	}
	os.MkdirAll("/verif/evidence", 0o755)
	b, _ := json.MarshalIndent(ev, "", " ")
	os.WriteFile(filepath.Join("/verif/evidence", d.prop+".json"), append(b, '\n'), 0o644)
}

func keysOf(m map[string]bool) []string {
	ks := make([]string, 0, len(m))
	for k := range m {
		ks = append(ks, k)
	}
	sort.Strings(ks)
	return ks
}

func (d *Driver) assumptions() []string {
	a := []string{
		"go/ssa (x/tools v0.29.0) translates the source faithfully; the gosym interpreter implements SSA instruction semantics (integers: SMT Int with exact wrap-around)",
		"claims hold only within the bounds listed under coverage.bounds and the unwinding/step limit; nothing outside them is claimed",
		"every function listed under coverage.stubs is replaced by its documented contract (engine-native model)",
		"executions are sequentially consistent interleavings at synchronisation points; data races on unsynchronised accesses are outside the claim",
		"solver verdicts (z3) are trusted; unknown/timeout/error answers are reported as inconclusive, never as success",
	}
	for _, e := range d.entries {
		if e.Doc != "" && e.Tiers[d.tierName] {
			a = append(a, e.Name+": "+e.Doc)
		}
	}
	return a
}

func (d *Driver) preemptBound(e *HarnessEntry) int {
	if d.preemptOverride > 0 {
		return d.preemptOverride
	}
	if e.Preempt <= 0 {
		return -1
	}
	b := e.Preempt
	if d.tier > 0 {
		b = e.PreemptThorough
	}
	if d.preemptOverride > 0 {
		b = d.preemptOverride
	}
	return b
}

func (d *Driver) isCovered(entry, label string) bool {
	d.mu.Lock()
	defer d.mu.Unlock()
	return d.covers[entry+":"+label]
}

func (d *Driver) markCovered(entry, label string) {
	d.mu.Lock()
	d.covers[entry+":"+label] = true
	d.mu.Unlock()
}
